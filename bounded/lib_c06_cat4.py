"""catalogue part 4: numpy.linalg, numpy.fft, ndarray methods"""
from lib_c06_catalogue import T, ANY, D2, D1, R2, R1

SQ = "L:fs!|ft!|fq!|gs!"           # well conditioned square (and stacks of them)
SPD = "L:fs$|ft$|fq$"

T("np.linalg.det", {"pos": "np.linalg.det(A)", "complex": ("np.linalg.det(A)", {"A": "L:cs!"}), "int": ("np.linalg.det(A)", {"A": "L:is"}),
                    "2x2-stack": ("np.linalg.det(A)", {"A": "L:f[3x2x2]!|f[2x2x2]!|f[2x2x3x3]!"})}, A=SQ)
T("np.linalg.slogdet", "np.linalg.slogdet(A)", A=SQ)
T("np.linalg.inv", {"pos": "np.linalg.inv(A)", "complex": ("np.linalg.inv(A)", {"A": "L:cs!"})}, A=SQ)
T("np.linalg.pinv", {
    "pos": "np.linalg.pinv(A)", "rect": ("np.linalg.pinv(A)", {"A": "L:f2|f[4x3]"}),
    "rcond": ("np.linalg.pinv(A, 0.3)", {"A": "L:f2"}), "rcond-kw": ("np.linalg.pinv(A, rcond=0.3)", {"A": "L:f2"}),
    "rtol": ("np.linalg.pinv(A, rtol=0.3)", {"A": "L:f2"}),
    "hermitian": ("np.linalg.pinv(A, hermitian=True)", {"A": SPD}),
    "hermitian-pos": ("np.linalg.pinv(A, None, True)", {"A": SPD}),
}, A=SQ)
T("np.linalg.solve", {"pos": "np.linalg.solve(A, B)", "matrix-rhs": ("np.linalg.solve(A, B)", {"A": "L:fs!", "B": "T:fs"}),
                      "same-dim": ("np.linalg.solve(A, B)", {"A": "L:fs!", "B": "L:fs"}),
                      "bare-b": ("np.linalg.solve(A, B)", {"A": "L:fs!", "B": "-:fs"}),
                      "bare-a": ("np.linalg.solve(D, B)", {"D": "-:fs!", "B": "T:fs"})},
  A="L:fs!|fq!|ft!", B="T:f[3]|f[4]|f[2x3x1]")
T("np.linalg.lstsq", {
    "pos": "np.linalg.lstsq(A, B)", "rcond": "np.linalg.lstsq(A, B, None)", "rcond-val": "np.linalg.lstsq(A, B, rcond=0.3)",
    "rcond-pos": "np.linalg.lstsq(A, B, 0.3)", "matrix-rhs": ("np.linalg.lstsq(A, B)", {"B": "T:f[5x2]"}),
    "same-dim": ("np.linalg.lstsq(A, B)", {"B": "L:f[5]"}), "bare-b": ("np.linalg.lstsq(A, B)", {"B": "-:f[5]"}),
}, A="L:f[5x2]|i[5x2]", B="T:f[5]|i[5]")
T("np.linalg.tensorinv", {"pos": "np.linalg.tensorinv(A, 1)", "kw": "np.linalg.tensorinv(A, ind=1)",
                          "default": ("np.linalg.tensorinv(A)", {"A": "L:f[2x2x4]"})}, A="L:f[4x2x2]")
T("np.linalg.tensorsolve", {"pos": "np.linalg.tensorsolve(A, B)", "axes": ("np.linalg.tensorsolve(A, B, (0,))", {"A": "L:f[4x2x2]", "B": "T:f[2x2]"}),
                            "axes-kw": ("np.linalg.tensorsolve(A, B, axes=(0,))", {"A": "L:f[4x2x2]", "B": "T:f[2x2]"})},
  A="L:f[2x2x4]", B="T:f[2x2]")
T("np.linalg.eig", {"pos": "(lambda w, v: (w, canon(v)))(*np.linalg.eig(A))", "attrs": "canon(np.linalg.eig(A).eigenvectors)"}, A=SPD)
T("np.linalg.eigvals", {"pos": "np.linalg.eigvals(A)"}, keep="A", A=SPD)
T("np.linalg.eigh", {"pos": "(lambda w, v: (w, canon(v)))(*np.linalg.eigh(A))", "uplo": "(lambda w, v: (w, canon(v)))(*np.linalg.eigh(np.triu(A), 'U'))",
                     "uplo-kw": "(lambda w, v: (w, canon(v)))(*np.linalg.eigh(np.triu(A), UPLO='U'))",
                     "lower": "(lambda w, v: (w, canon(v)))(*np.linalg.eigh(np.tril(A)))"}, keep="A@0", A=SPD)
T("np.linalg.eigvalsh", {"pos": "np.linalg.eigvalsh(A)", "uplo": "np.linalg.eigvalsh(np.triu(A), 'U')",
                         "uplo-kw": "np.linalg.eigvalsh(np.triu(A), UPLO='U')", "lower": "np.linalg.eigvalsh(np.tril(A))"}, keep="A", A=SPD)
T("np.linalg.svd", {
    "pos": "(lambda t: (canon(t[0][..., :, :min(t[0].shape[-1], t[2].shape[-2])]), t[1], canon(t[2][..., :min(t[0].shape[-1], t[2].shape[-2]), :], -1)))(np.linalg.svd(A))", "reduced": "(lambda t: (canon(t[0][..., :, :min(t[0].shape[-1], t[2].shape[-2])]), t[1], canon(t[2][..., :min(t[0].shape[-1], t[2].shape[-2]), :], -1)))(np.linalg.svd(A, False))", "reduced-kw": "(lambda t: (canon(t[0][..., :, :min(t[0].shape[-1], t[2].shape[-2])]), t[1], canon(t[2][..., :min(t[0].shape[-1], t[2].shape[-2]), :], -1)))(np.linalg.svd(A, full_matrices=False))",
    "no-uv": "np.linalg.svd(A, True, False)", "no-uv-kw": "np.linalg.svd(A, compute_uv=False)",
    "hermitian": ("(lambda t: (canon(t[0][..., :, :min(t[0].shape[-1], t[2].shape[-2])]), t[1], canon(t[2][..., :min(t[0].shape[-1], t[2].shape[-2]), :], -1)))(np.linalg.svd(A, hermitian=True))", {"A": SPD}), "hermitian-pos": ("(lambda t: (canon(t[0][..., :, :min(t[0].shape[-1], t[2].shape[-2])]), t[1], canon(t[2][..., :min(t[0].shape[-1], t[2].shape[-2]), :], -1)))(np.linalg.svd(A, True, True, True))", {"A": SPD}),
    "hermitian-no-uv": ("np.linalg.svd(A, compute_uv=False, hermitian=True)", {"A": SPD}),
}, A="L:f2|fs!|f[4x3]|f3")
T("np.linalg.svdvals", "np.linalg.svdvals(A)", keep="A", A="L:f2|fs!|f3")
T("np.linalg.qr", {"pos": "np.linalg.qr(A)", "complete": "np.linalg.qr(A, 'complete')", "r": "np.linalg.qr(A, mode='r')",
                   "raw": "np.linalg.qr(A, mode='raw')", "product": "(lambda q, r: q @ r)(*np.linalg.qr(A))"}, A="L:f2|fs!|f[4x3]")
T("np.linalg.cholesky", {"pos": "np.linalg.cholesky(A)", "upper": "np.linalg.cholesky(A, upper=True)"}, A=SPD)
T("np.linalg.cond", {"pos": "np.linalg.cond(A)", "p": "np.linalg.cond(A, 1)", "p-kw": "np.linalg.cond(A, p='fro')",
                     "p-inf": "np.linalg.cond(A, np.inf)", "p-neg": "np.linalg.cond(A, -2)"}, A="L:fs!|ft!")
T("np.linalg.matrix_rank", {"pos": "np.linalg.matrix_rank(A)", "hermitian": ("np.linalg.matrix_rank(A, hermitian=True)", {"A": SPD}),
                            "rtol": "np.linalg.matrix_rank(A, rtol=0.3)", "tol-qty": ("np.linalg.matrix_rank(A, tol=V)", {"V": "L:f0+"}),
                            "deficient": "np.linalg.matrix_rank(A - A)"}, A="L:f2|fs!|ft!")
T("np.linalg.matrix_rank", {"tol-bare": "np.linalg.matrix_rank(A, 300.0)"}, A="L:fs!")
T("np.linalg.matrix_power", {"pos": "np.linalg.matrix_power(A, 3)", "zero": "np.linalg.matrix_power(A, 0)", "one": "np.linalg.matrix_power(A, 1)",
                             "neg": "np.linalg.matrix_power(A, -2)", "kw": "np.linalg.matrix_power(A, n=2)"}, A="L:fs!|is|ft!")
T("np.linalg.multi_dot", {"pos": "np.linalg.multi_dot([A, B, C])", "two": "np.linalg.multi_dot((A, B))", "out": ("np.linalg.multi_dot([A, B, C], out=O)", {"A": "L:fs", "B": "T:fs", "C": "M:fs"}),
                          "four": "np.linalg.multi_dot([A, B, C, A])"}, A="L:fs|is", B="T:fs|is", C="M:fs|is")
T("np.linalg.norm", {
    "pos": "np.linalg.norm(A)", "ord": "np.linalg.norm(A, 1)", "ord-kw": "np.linalg.norm(A, ord=np.inf)",
    "ord-fro": ("np.linalg.norm(A, 'fro')", {"A": "L:f2|c2"}), "ord-nuc": ("np.linalg.norm(A, 'nuc')", {"A": "L:f2"}),
    "ord-2": ("np.linalg.norm(A, 2)", {"A": "L:f2|f1"}), "ord-neg": "np.linalg.norm(A, -1)",
    "ord-3": ("np.linalg.norm(A, 3)", {"A": "L:f1+|f1"}), "ord-0": ("np.linalg.norm(A, 0)", {"A": "L:f1z"}),
    "axis": ("np.linalg.norm(A, axis=1)", {"A": "L:f2|i2|c2"}), "axis-pos": ("np.linalg.norm(A, None, 0)", {"A": "L:f2"}),
    "axis-pair": ("np.linalg.norm(A, 'fro', (1, 2))", {"A": "L:f3"}),
    "keepdims": ("np.linalg.norm(A, axis=0, keepdims=True)", {"A": "L:f2"}), "keepdims-pos": ("np.linalg.norm(A, 1, 1, True)", {"A": "L:f2"}),
}, keep="A", A="L:f1|f2|i2|c1|g1")
T("np.linalg.matrix_norm", {"pos": "np.linalg.matrix_norm(A)", "ord": "np.linalg.matrix_norm(A, ord=1)", "nuc": "np.linalg.matrix_norm(A, ord='nuc')",
                            "keepdims": "np.linalg.matrix_norm(A, keepdims=True)", "ord-2": "np.linalg.matrix_norm(A, ord=2)"},
  keep="A", A="L:f2|c2|f3|i2")
T("np.linalg.vector_norm", {"pos": "np.linalg.vector_norm(A)", "axis": "np.linalg.vector_norm(A, axis=-1)", "ord": "np.linalg.vector_norm(A, ord=1)",
                            "ord-inf": "np.linalg.vector_norm(A, ord=np.inf)", "keepdims": "np.linalg.vector_norm(A, axis=0, keepdims=True)",
                            "axis-tuple": ("np.linalg.vector_norm(A, axis=(0, 1))", {"A": "L:f3"}), "ord-3": "np.linalg.vector_norm(A, ord=3)"},
  keep="A", A="L:f1|f2|i2|c1")
T("np.linalg.outer", {"pos": "np.linalg.outer(A, B)", "same-dim": ("np.linalg.outer(A, B)", {"B": "L:f[3]"}), "bare-b": ("np.linalg.outer(A, B)", {"B": "-:f[3]"})},
  A="L:f1|i1|c1", B="T:f[3]|i[3]|f[3]")
T("np.linalg.cross", {"pos": "np.linalg.cross(A, B)", "axis": ("np.linalg.cross(A, B, axis=0)", {"A": "L:f[3x4]|fs", "B": "T:f[3x4]|fs"})},
  A="L:fv|iv|f[4x3]", B="T:fv|iv|f[4x3]")
T("np.linalg.matmul", {"pos": "np.linalg.matmul(A, B)", "vec": ("np.linalg.matmul(A, B)", {"B": "T:f[4]"}), "same-dim": ("np.linalg.matmul(A, B)", {"B": "L:fq"})},
  A="L:f2|i2|c2", B="T:fq|iq|fq")
T("np.linalg.tensordot", {"pos": "np.linalg.tensordot(A, B)", "axes": "np.linalg.tensordot(A, B, axes=1)", "pairs": "np.linalg.tensordot(A, B, axes=([0], [1]))"},
  A="L:fs|is", B="T:fs|is")
T("np.linalg.vecdot", {"pos": "np.linalg.vecdot(A, B)", "axis": "np.linalg.vecdot(A, B, axis=0)", "complex": ("np.linalg.vecdot(A, B)", {"A": "L:c2", "B": "T:c2"}),
                       "same-dim": ("np.linalg.vecdot(A, B)", {"B": "L:f2"})}, A="L:f2|i2|f1", B="T:f2|i2|f1")
T("np.linalg.trace", {"pos": "np.linalg.trace(A)", "offset": "np.linalg.trace(A, offset=1)", "dtype": "np.linalg.trace(A, dtype=np.float32)"},
  keep="A", A="L:f2|i2|c2|f3")
T("np.linalg.diagonal", {"pos": "np.linalg.diagonal(A)", "offset": "np.linalg.diagonal(A, offset=-1)"}, keep="A", A="L:f2|i2|c2|f3")
T("np.linalg.matrix_transpose", "np.linalg.matrix_transpose(A)", keep="A", A="L:f2|i2|c2|f3")

# ---- fft
for fn in ("fft", "ifft", "rfft", "irfft", "hfft", "ihfft"):
    real_only = fn in ("rfft", "ihfft")
    a = "L:f8|f2|i8|g8" + ("" if real_only else "|c8")
    T("np.fft." + fn, {
        "pos": "np.fft.%s(A)" % fn, "n": "np.fft.%s(A, 6)" % fn, "n-pad": "np.fft.%s(A, n=11)" % fn,
        "axis": ("np.fft.%s(A, None, 0)" % fn, {"A": "L:f2"}), "axis-kw": ("np.fft.%s(A, axis=0)" % fn, {"A": "L:f2|f3"}),
        "norm-ortho": "np.fft.%s(A, norm='ortho')" % fn, "norm-forward": "np.fft.%s(A, None, -1, 'forward')" % fn,
        "norm-n": "np.fft.%s(A, 5, norm='forward')" % fn, "out": ("np.fft.%s(A, out=O)" % fn, {"A": "L:f8"}),
    }, A=a)
for fn in ("fft2", "ifft2", "rfft2", "irfft2", "fftn", "ifftn", "rfftn", "irfftn"):
    real_only = fn.startswith("rfft")
    a = "L:f2|fq|i2|g2|f3" + ("" if real_only else "|c2")
    T("np.fft." + fn, {
        "pos": "np.fft.%s(A)" % fn, "s": "np.fft.%s(A, (2, 6), (0, 1))" % fn, "s-kw": "np.fft.%s(A, s=(4, 3), axes=(-2, -1))" % fn,
        "axes": "np.fft.%s(A, axes=(1, 0))" % fn, "axes-single": "np.fft.%s(A, axes=(0,))" % fn,
        "norm-ortho": "np.fft.%s(A, norm='ortho')" % fn, "norm-forward": "np.fft.%s(A, None, (0, 1), 'forward')" % fn,
        "out": ("np.fft.%s(A, out=O)" % fn, {"A": "L:f2"}),
    }, A=a)
for fn in ("fftshift", "ifftshift"):
    T("np.fft." + fn, {"pos": "np.fft.%s(A)" % fn, "axes": "np.fft.%s(A, 0)" % fn, "axes-kw": "np.fft.%s(A, axes=(1,))" % fn},
      keep="A", A="L:f2|i2|c2|f[5x3]")
    T("np.fft." + fn, {"1d": "np.fft.%s(A)" % fn}, keep="A", A="L:f1|f8|i1")

# ---- ndarray methods
M_A = "L:f2|i2|c2|g2"
for fn, kp in (("sum", True), ("mean", True), ("prod", False)):
    T("ndarray." + fn, {
        "pos": "A.%s()" % fn, "axis": "A.%s(1)" % fn, "axis-kw": "A.%s(axis=0, keepdims=True)" % fn,
        "dtype": ("A.%s(0, np.float32)" % fn, {"A": "L:f2|i2"}), "out": ("A.%s(axis=0, out=O)" % fn, {"A": "L:f2"}),
        "where": ("A.%s(axis=1, where=K)" % fn, {"A": "L:f2"}), "1d": ("A.%s()" % fn, {"A": "L:f1|f0|fe|i1" if fn != "mean" else "L:f1|f0|i1"}),
    }, keep="A" if kp else None, A=(M_A if fn != "prod" else "L:f2|c2|g2"), K="-:b2")
for fn in ("std", "var"):
    T("ndarray." + fn, {
        "pos": "A.%s()" % fn, "axis": "A.%s(1)" % fn, "axis-kw": "A.%s(axis=0, keepdims=True)" % fn,
        "ddof": "A.%s(axis=1, ddof=1)" % fn, "ddof-pos": ("A.%s(1, None, None, 1)" % fn, {"A": "L:f2"}),
        "dtype": ("A.%s(0, np.float32)" % fn, {"A": "L:f2"}), "out": ("A.%s(axis=0, out=O)" % fn, {"A": "L:f2"}),
        "where": ("A.%s(axis=1, where=K)" % fn, {"A": "L:f2"}), "correction": ("A.%s(axis=1, correction=1)" % fn, {"A": "L:f2"}),
    }, keep="A" if fn == "std" else None, A=M_A, K="-:b2")
for fn in ("max", "min"):
    T("ndarray." + fn, {
        "pos": "A.%s()" % fn, "axis": "A.%s(1)" % fn, "axis-kw": "A.%s(axis=0, keepdims=True)" % fn,
        "out": ("A.%s(axis=0, out=O)" % fn, {"A": "L:f2"}),
        "where": ("A.%s(axis=1, where=K, initial=V)" % fn, {"A": "L:f2", "V": "L:f0"}),
    }, keep="A", A="L:f2|i2|g2|f1|f0", K="-:b2")
for fn in ("argmax", "argmin"):
    T("ndarray." + fn, {"pos": "A.%s()" % fn, "axis": "A.%s(1)" % fn, "axis-kw": "A.%s(axis=0, keepdims=True)" % fn,
                        "out": ("A.%s(axis=0, out=O)" % fn, {"A": "L:f2"})}, A="L:f2|i2|g2|f1")
for fn in ("all", "any"):
    T("ndarray." + fn, {"pos": "A.%s()" % fn, "axis": "A.%s(1)" % fn, "axis-kw": "A.%s(axis=0, keepdims=True)" % fn,
                        "out": ("A.%s(axis=0, out=O)" % fn, {"A": "L:f2z"}), "where": ("A.%s(axis=1, where=K)" % fn, {"A": "L:f2z"})},
      A="L:f2z|i2z|c2", K="-:b2")
for fn in ("cumsum", "cumprod"):
    T("ndarray." + fn, {"pos": "A.%s()" % fn, "axis": "A.%s(1)" % fn, "axis-kw": "A.%s(axis=0)" % fn,
                        "dtype": ("A.%s(0, np.float32)" % fn, {"A": "L:f2"}), "out": ("A.%s(axis=0, out=O)" % fn, {"A": "L:f2"})},
      keep="A" if fn == "cumsum" else None, A=M_A)
T("ndarray.argsort", {"pos": "A.argsort()", "axis": "A.argsort(0)", "axis-kw": "A.argsort(axis=None)", "kind": "A.argsort(-1, 'stable')",
                      "kind-kw": "A.argsort(kind='stable')", "stable": "A.argsort(stable=True)"}, A="L:f2|i2|g2|f1|f2=")
T("ndarray.sort", {"pos": "(A.sort(), A)[1]", "axis": "(A.sort(0), A)[1]", "kind": "(A.sort(kind='stable'), A)[1]",
                   "axis-kw": "(A.sort(axis=0), A)[1]"}, keep="A", A="L:f2|i2|g2|f1|c1")
T("ndarray.partition", {"pos": "(A.partition(2), A)[1]", "axis": "(A.partition(1, 0), A)[1]"}, keep="A", A="L:f2|i2")
T("ndarray.argpartition", {"pos": "A.argpartition(2)", "axis": "A.argpartition(1, 0)", "axis-kw": "A.argpartition(1, axis=0)"}, A="L:f2|i2")
T("ndarray.dot", {"pos": "A.dot(B)", "kw": "A.dot(b=B)", "out": "A.dot(B, out=O)", "vec": ("A.dot(B)", {"B": "T:f[4]"}),
                  "same-dim": ("A.dot(B)", {"B": "L:fq"}), "bare-b": ("A.dot(B)", {"B": "-:fq"}), "scalar": ("A.dot(B)", {"B": "T:f0"})},
  A="L:f2|i2|c2", B="T:fq|iq|fq")
T("ndarray.take", {"pos": "A.take([0, 2, 1])", "scalar": "A.take(3)", "axis": "A.take([2, 0], 1)", "axis-kw": "A.take(indices=[[0, 1], [2, 2]], axis=0)",
                   "out": ("A.take([2, 0, 0], axis=1, out=O)", {"A": "L:f2|i2"}), "mode-wrap": "A.take([13, -14], mode='wrap')",
                   "mode-clip": "A.take([13, -14, 1], mode='clip')", "mode-pos": "A.take([5, -7], 1, None, 'wrap')"}, keep="A", A=M_A)
T("ndarray.clip", {"pos": "A.clip(P, Q)", "kw": "A.clip(min=P, max=Q)", "only-min": "A.clip(P)", "only-max": "A.clip(max=Q)",
                   "out": "A.clip(P, Q, out=O)"}, keep="A", A="L:f2|i2|g2", P="L:f0|i0|f0", Q="L:f0+|i0+|f0+")
T("ndarray.clip", {"bare-bounds": "A.clip(-1.0, 1.5)"}, keep="A", A="L:f2")
T("ndarray.round", {"pos": "A.round()", "decimals": "A.round(1)", "decimals-kw": "A.round(decimals=2)", "out": "A.round(1, out=O)"},
  keep="A", nocov=True, A="L:f2|g2|c2|f1")
T("ndarray.reshape", {"pos": "A.reshape(4, 3)", "tuple": "A.reshape((2, 6))", "minus1": "A.reshape(-1)", "order": "A.reshape((6, 2), order='F')",
                      "copy": "A.reshape((12,), copy=True)"}, keep="A", A=M_A)
T("ndarray.ravel", {"pos": "A.ravel()", "order": "A.ravel('F')", "order-kw": "A.ravel(order='F')"}, keep="A", A=M_A)
T("ndarray.flatten", {"pos": "A.flatten()", "order": "A.flatten('F')", "order-kw": "A.flatten(order='F')"}, keep="A", A=M_A)
T("ndarray.transpose", {"pos": "A.transpose()", "axes": ("A.transpose(1, 0, 2)", {"A": "L:f3"}), "tuple": ("A.transpose((2, 0, 1))", {"A": "L:f3"})},
  keep="A", A=M_A)
T("ndarray.T", {"T": "A.T", "mT": "A.mT"}, keep="A", A="L:f2|i2|c2|f3")
T("ndarray.swapaxes", {"pos": "A.swapaxes(0, 1)", "3d": ("A.swapaxes(0, 2)", {"A": "L:f3"})}, keep="A", A=M_A)
T("ndarray.squeeze", {"pos": "A.squeeze()", "axis": "A.squeeze(0)", "axis-kw": "A.squeeze(axis=0)"}, keep="A", A="L:fr|ir|fo")
T("ndarray.repeat", {"pos": "A.repeat(2)", "axis": "A.repeat(2, 1)", "axis-kw": "A.repeat([1, 0, 2], axis=0)"}, keep="A", A=M_A)
T("ndarray.diagonal", {"pos": "A.diagonal()", "offset": "A.diagonal(1)", "offset-kw": "A.diagonal(offset=-1)",
                       "axes": ("A.diagonal(0, 1, 2)", {"A": "L:f3"})}, keep="A", A=M_A)
T("ndarray.trace", {"pos": "A.trace()", "offset": "A.trace(1)", "offset-kw": "A.trace(offset=-1)", "axes": ("A.trace(0, 1, 2)", {"A": "L:f3"}),
                    "dtype": "A.trace(dtype=np.float32)", "out": ("A.trace(axis1=1, axis2=2, out=O)", {"A": "L:f3"})}, keep="A", A=M_A)
T("ndarray.copy", {"pos": "A.copy()", "order": "A.copy('F')", "order-kw": "A.copy(order='F')", "order-k": ("A.T.copy(order='K')", {"A": "L:f2"})},
  keep="A", A=M_A + "|f0|fe")
T("ndarray.astype", {"pos": "A.astype(np.float32)", "copy": "A.astype(np.float64, copy=False)", "to-int": ("A.astype('int32')", {"A": "L:f2"}),
                     "casting": "A.astype(np.complex128, casting='safe')", "order": "A.astype(np.float64, order='F')"}, keep="A", nocov=("to-int",), A="L:f2|i2|g2")
T("ndarray.nonzero", "A.nonzero()", A="L:f2z|i2z|f1z")
T("ndarray.searchsorted", {"pos": "A.searchsorted(V)", "side": "A.searchsorted(V, 'right')", "side-kw": "A.searchsorted(V, side='right')",
                           "sorter": ("B.searchsorted(V, sorter=np.argsort(np.asarray(B)))", {"B": "L:f6"}),
                           "dups-right": ("A.searchsorted(A[2], 'right')", {"A": "L:f6=^"})}, A="L:f6^|i6^", V="L:f1|i1")
T("ndarray.conj", {"conj": "A.conj()", "conjugate": "A.conjugate()"}, keep="A", A="L:c2|f2|i2")
T("ndarray.real-imag", {"real": "A.real", "imag": "A.imag"}, keep="A", A="L:c2|f2|i2")
T("ndarray.fill", {"qty": "(A.fill(V), A)[1]", "zero": "(A.fill(0), A)[1]"}, keep="A", A="L:f2|i2|c2", V="L:f0|i0|f0")
T("ndarray.fill", {"bare-scalar": "(A.fill(2.5), A)[1]"}, keep="A", A="L:f2")
T("ndarray.put", {"pos": "(A.put([0, 5], B), A)[1]", "mode": "(A.put([13, -14], B, mode='wrap'), A)[1]", "mode-pos": "(A.put([25, 0], B, 'clip'), A)[1]"},
  keep="A", A="L:f2|i2", B="L:f[2]|i[2]")
T("ndarray.compress", {"pos": "A.compress([True, False, True])", "axis": "A.compress([True, False, True], 0)",
                       "axis-kw": "A.compress([False, True, True, False], axis=1)", "out": "A.compress([True, False, True], axis=0, out=O)"},
  keep="A", A=M_A)
T("ndarray.choose", {"pos": "(I % 2).choose((A, B))", "mode": "(I + 3).choose((A, B), mode='wrap')", "out": "(I % 2).choose((A, B), out=O)"},
  keep="A", I="-:i[4]+", A="L:f2|i2", B="L:f2|i2")
T("ndarray.choose", {"qty-index": "(A % 2).choose((B, B))"}, A="L:i[4]+", B="T:f[4]")
T("ndarray.item", {"pos": "A.item(3)", "multi": "A.item(1, 2)", "tolist": "A.tolist()"}, nocov=True, A="L:f2|i2|c2")
T("ndarray.tobytes", {"pos": "A.tobytes()", "order": "A.tobytes('F')"}, nocov=True, A="L:f2|i2")
T("ndarray.view", {"ndarray": "A.view(np.ndarray)", "dtype": ("A.view(np.int64)", {"A": "L:f2"}), "same": "A.view()"}, nocov=("ndarray", "dtype"), A="L:f2|i2")
T("ndarray.byteswap", {"pos": "A.byteswap()", "inplace": "A.copy().byteswap(True)"}, nocov=True, A="L:f2|i2")
T("ndarray.getitem", {
    "int": "A[1]", "neg": "A[-1]", "slice": "A[0:2]", "step": "A[::2, ::-1]", "tuple": "A[1, 2]", "ellipsis": "A[..., 0]",
    "newaxis": "A[:, None, :]", "mask": "A[K]", "mask-rows": "A[np.array([True, False, True])]", "fancy": "A[[0, 2]]",
    "fancy-pair": "A[[0, 2], [1, 3]]", "fancy-mixed": "A[1:, [0, 3]]", "bool-cmp": "A[A > A.mean()]", "empty": "A[3:]",
    "flat": "A.flat[5]", "flat-slice": "A.flat[2:7]", "iter": "list(A)", "iter-1d": "list(A[0])", "flat-iter": "list(A.flat)",
}, keep="A", A=M_A, K="-:b2")
T("ndarray.setitem", {
    "int": "(A.__setitem__(1, V), A)[1]", "slice": "(A.__setitem__(slice(0, 2), B[0:2]), A)[1]", "mask": "(A.__setitem__(K, V), A)[1]",
    "fancy": "(A.__setitem__(([0, 2], [1, 3]), V), A)[1]", "ellipsis": "(A.__setitem__(Ellipsis, B), A)[1]",
    "zero": "(A.__setitem__(K, 0), A)[1]",
}, keep="A", A="L:f2|i2|c2", B="L:f2|i2|f2", V="L:f0|i0|f0", K="-:b2")
T("ndarray.setitem", {"bare-scalar": "(A.__setitem__(1, 2.5), A)[1]"}, keep="A", A="L:f2")
T("ndarray.misc", {"len": "len(A)", "abs": "abs(A)", "neg": "-A", "pos": "+A", "bool-0d": ("bool(A)", {"A": "L:f0"}),
                   "float-0d": ("float(A)", {"A": "L:f0"}), "int-0d": ("int(A)", {"A": "L:f0"}), "contains": "A[0, 0] in A", "index-0d": ("[10, 20, 30, 40, 50, 60, 70][A]", {"A": "1:i0+"})},
  nocov=("float-0d", "int-0d", "bool-0d"), A="L:f2|i2")
T("ndarray.misc", {"abs-keep": "abs(A)", "neg-keep": "-A", "pos-keep": "+A"}, keep="A", A="L:f2|i2|c2|f0")
