"""C07 bounded stand-in: unit covariance of every NumPy array function / ndarray method of the shared
catalogue (lib_c06_catalogue).  Each template is evaluated on inputs x and on the same physical
inputs re-expressed coherently in another unit system (all slots of one dimension multiplied by the
same, independently computed factor; integer slots only where the factor is integral):
  (a) D0->D1 (and D1->D2): custom registry whose units are even powers of two apart -> re-expression
      is bit exact; a unit-carrying result must denote exactly the same quantity (<= 4 ulp norm-wise;
      key aspect `inexact` if only within 1e-9 and NumPy itself is exact, `value` beyond), a
      unit-less result must be identical;
  (b) O0->O2 (m,s,kg -> cm,ms,g: the seeded multiples of 1/8 stay exact) with rtol 1e-9 and
      cancellation residue below 1e-13 x input magnitude counted as zero;
  (c) thorough only: O0->O1 (inch, minute, lb): value mismatches are reported only when unyt's
      numbers differ from NumPy's on the same bare numbers (bin-edge flips and cancellation are
      NumPy's floating point, unit arithmetic is already covered by (a), (b)).
Functions whose result has the dimension of an input slot (`keep`) must return a unyt object
commensurable with that slot (aspect `units-dropped`).  Rounding / integer casts / explicit
subok=False / IO templates (`nocov`) are checked for type, dimensions and shape only.  Bare out=
buffers and text results are not part of C07 (they are in C06)."""
import os
import random
import sys

sys.path.insert(0, os.path.dirname(os.path.abspath(__file__)))
from common import Run, replay_script  # noqa: E402

import lib_c06_catalogue as cat  # noqa: E402
from lib_c06_harness import H_run07, make_slotdefs, replay_source  # noqa: E402

have, missing, handled_missing = cat.coverage()
nfun = len(cat.dispatching_functions())

R = Run("C07",
        "call templates of lib_c06_catalogue (%d functions/methods, %d of the %d dispatching numpy/linalg/fft "
        "functions; positional/keyword/out= forms over shapes x dtypes x seeded data) evaluated in a unit "
        "system and re-expressed in another: dyadic custom registry (bit-exact), m/s/kg -> cm/ms/g "
        "(rtol 1e-9) and, thorough, inch/minute/lb; results compared as physical quantities, unit-less results numerically, out=/in-place "
        "slots likewise; dimension-preserving functions must return commensurable quantities.  Non-trivial = "
        "the call succeeded in both systems and at least one slot was re-scaled.  Functions without a "
        "template: %s" % (len(have), nfun - len(missing), nfun, ", ".join(missing) or "none"),
        "finite catalogue x 2 system pairs x 1 data draw (quick) / 4 pairs x 4 draws (thorough)")

PAIRS = [("D0", "D1"), ("O0", "O2")]
DRAWS = 1
if R.thorough:
    PAIRS = [("D0", "D1"), ("D1", "D2"), ("O0", "O2"), ("O0", "O1")]
    DRAWS = 4
seed = R.args.seed
seen = set()
raises = {}
counts = {"ok": 0, "raises": 0, "skipped": 0}
driver_errors = []


def replay_for(sd, c, s0, s1, aspect):
    body = [
        "st, found = H_run07(SD, EXPR, %r, %r, keep=%r, tol=%r, nocov=%r)" % (s0, s1, c.keep, c.tol or 1e-9, c.nocov),
        "print(st)",
        "for a, m in found: print(a, '|', m)",
        "sys.exit(1 if st == 'ok' and %r in [a for a, _ in found] else 0)" % aspect,
    ]
    return replay_script(replay_source(body, sd, c.expr))


for c in cat.CASES:
    if c.text or c.tid.endswith("/obare"):
        continue        # text results carry no quantity; a bare out= buffer cannot carry units
    scaled = any(d not in "-X1" for d, _ in c.slots.values())
    for s0, s1 in PAIRS:
        for draw in range(DRAWS):
            rng = random.Random("%d|%s|%s|%s|%d" % (seed, c.fname, c.tid, c.variant, draw))
            try:
                sd = make_slotdefs(c, rng)
                st, found = H_run07(sd, c.expr, s0, s1, keep=c.keep, tol=c.tol or 1e-9, nocov=c.nocov)
            except Exception as e:  # driver problem, not a finding
                driver_errors.append("%s:%s[%s] %r" % (c.fname, c.tid, c.variant, e))
                continue
            counts[st] += 1
            if st == "skipped":
                continue
            R.case("C07[%s:%s]%s" % (c.fname, c.tid, c.variant), nontrivial=(st == "ok" and scaled),
                   sample={"expr": c.expr, "slots": c.variant, "systems": [s0, s1]} if draw == 0 and c.tid == "axis" else None)
            if st == "raises":
                raises.setdefault(c.fname, set()).add(c.tid)
                continue
            if c.garbage:
                found = [(a, m) for a, m in found if a not in ("value", "bare-value", "inexact")]
            for aspect, msg in found:
                key = "C07[%s:%s:%s]" % (c.fname, c.tid, aspect)
                if key in seen:
                    continue
                seen.add(key)
                R.fail(key, "%s with %s, %s -> %s: %s" % (c.expr, c.variant, s0, s1, msg), replay_for(sd, c, s0, s1, aspect))

R.notes.append("outcomes: %r" % counts)
R.notes.append("functions/templates that raise on quantities in both systems (no covariance statement): " +
               "; ".join("%s(%s)" % (f, ",".join(sorted(t))) for f, t in sorted(raises.items())))
if handled_missing:
    R.notes.append("unyt-handled functions WITHOUT a template: %s" % handled_missing)
if driver_errors:
    R.notes.append("driver errors (%d): %s" % (len(driver_errors), driver_errors[:20]))
R.finish()
