"""C07 bounded stand-in: unit covariance of every NumPy array function / ndarray method of the shared
catalogue (lib_c06_catalogue).  Each template is evaluated on inputs x and on the same physical
inputs re-expressed coherently in another unit system (all slots of one dimension multiplied by the
same, independently computed factor; integer slots only where the factor is integral):
  (a) D0->D1 (and D1->D2): custom registry whose units are even powers of two apart -> re-expression
      is bit exact; a unit-carrying result must denote exactly the same quantity (<= 4 ulp norm-wise;
      key aspect `inexact` if only within 1e-9 and NumPy itself is exact, `value` beyond), a
      unit-less result must be identical;
  (b) O0->O2 (m,s,kg -> cm,ms,g: the seeded multiples of 1/8 stay exact) with rtol 1e-9 and
      cancellation residue below 1e-13 x input magnitude counted as zero;
  (c) thorough only: O0->O1 (inch, minute, lb): value mismatches are reported only when unyt's
      numbers differ from NumPy's on the same bare numbers (bin-edge flips and cancellation are
      NumPy's floating point, unit arithmetic is already covered by (a), (b)).
Functions whose result has the dimension of an input slot (`keep`) must return a unyt object
commensurable with that slot (aspect `units-dropped`).  Rounding / integer casts / explicit
subok=False / IO templates (`nocov`) are checked for type, dimensions and shape only.  Bare out=
buffers and text results are not part of C07 (they are in C06).
Mixed configurations (lib_c07_mixed): every template with two or more array slots that carry units
(histogram2d / histogramdd coordinates and weights=, dot / outer / cross / kron / convolve, interp
x/xp/fp, linalg.solve / lstsq, where, clip bounds, concatenate ...) is also run with every non-empty
proper subset of those slots bare (ndarray, nested list, ndarray holding the numbers of a quantity
slot).  A bare argument counts as dimensionless: it is not re-expressed and the result must still be
covariant (keys `C07[<function>:<template>:bare-<slots>:<aspect>]`, same aspects as above), and the
call must agree with the one in which the bare slots are explicitly dimensionless quantities
(aspects `bdl-dims`, `bdl-value`, `bdl-structure`; `bdl-raise` = bare + dimensionful accepted where
dimensionless + dimensionful is refused with a unit error).  A refusal is always acceptable."""
import os
import random
import sys

sys.path.insert(0, os.path.dirname(os.path.abspath(__file__)))
from common import Run, replay_script  # noqa: E402

import lib_c06_catalogue as cat  # noqa: E402
from lib_c06_harness import H_run07, make_slotdefs, replay_source  # noqa: E402
import lib_c07_mixed as mx  # noqa: E402

have, missing, handled_missing = cat.coverage()
nfun = len(cat.dispatching_functions())

R = Run("C07",
        "call templates of lib_c06_catalogue (%d functions/methods, %d of the %d dispatching numpy/linalg/fft "
        "functions; positional/keyword/out= forms over shapes x dtypes x seeded data) evaluated in a unit "
        "system and re-expressed in another: dyadic custom registry (bit-exact), m/s/kg -> cm/ms/g "
        "(rtol 1e-9) and, thorough, inch/minute/lb; results compared as physical quantities, unit-less results numerically, out=/in-place "
        "slots likewise; dimension-preserving functions must return commensurable quantities.  Non-trivial = "
        "the call succeeded in both systems and at least one slot was re-scaled.  Mixed configurations: every "
        "template with >= 2 unit-carrying array slots again with each non-empty proper subset of them bare "
        "(ndarray / list / ndarray with the numbers of a quantity slot): covariance with the bare slots held "
        "fixed, and agreement with the call on explicitly dimensionless quantities.  Functions without a "
        "template: %s" % (len(have), nfun - len(missing), nfun, ", ".join(missing) or "none"),
        "finite catalogue x 2 system pairs x 1 data draw (quick) / 4 pairs x 4 draws (thorough); mixed "
        "configurations: all bare subsets x 3 forms per template, same pairs and draws")

PAIRS = [("D0", "D1"), ("O0", "O2")]
DRAWS = 1
if R.thorough:
    PAIRS = [("D0", "D1"), ("D1", "D2"), ("O0", "O2"), ("O0", "O1")]
    DRAWS = 4
seed = R.args.seed
seen = set()
raises = {}
counts = {"ok": 0, "raises": 0, "skipped": 0}
driver_errors = []


def replay_for(sd, c, s0, s1, aspect):
    body = [
        "st, found = H_run07(SD, EXPR, %r, %r, keep=%r, tol=%r, nocov=%r)" % (s0, s1, c.keep, c.tol or 1e-9, c.nocov),
        "print(st)",
        "for a, m in found: print(a, '|', m)",
        "sys.exit(1 if st == 'ok' and %r in [a for a, _ in found] else 0)" % aspect,
    ]
    return replay_script(replay_source(body, sd, c.expr))


for c in cat.CASES:
    if c.text or c.tid.endswith("/obare"):
        continue        # text results carry no quantity; a bare out= buffer cannot carry units
    scaled = any(d not in "-X1" for d, _ in c.slots.values())
    for s0, s1 in PAIRS:
        for draw in range(DRAWS):
            rng = random.Random("%d|%s|%s|%s|%d" % (seed, c.fname, c.tid, c.variant, draw))
            try:
                sd = make_slotdefs(c, rng)
                st, found = H_run07(sd, c.expr, s0, s1, keep=c.keep, tol=c.tol or 1e-9, nocov=c.nocov)
            except Exception as e:  # driver problem, not a finding
                driver_errors.append("%s:%s[%s] %r" % (c.fname, c.tid, c.variant, e))
                continue
            counts[st] += 1
            if st == "skipped":
                continue
            R.case("C07[%s:%s]%s" % (c.fname, c.tid, c.variant), nontrivial=(st == "ok" and scaled),
                   sample={"expr": c.expr, "slots": c.variant, "systems": [s0, s1]} if draw == 0 and c.tid == "axis" else None)
            if st == "raises":
                raises.setdefault(c.fname, set()).add(c.tid)
                continue
            if c.garbage:
                found = [(a, m) for a, m in found if a not in ("value", "bare-value", "inexact")]
            for aspect, msg in found:
                key = "C07[%s:%s:%s]" % (c.fname, c.tid, aspect)
                if key in seen:
                    continue
                seen.add(key)
                R.fail(key, "%s with %s, %s -> %s: %s" % (c.expr, c.variant, s0, s1, msg), replay_for(sd, c, s0, s1, aspect))

# ---------------------------------------------------------------------------------------------
# mixed configurations: templates with >= 2 quantity slots, every non-empty proper subset of them
# bare (ndarray, nested list, ndarray with the numbers of a quantity slot); see lib_c07_mixed for the two relations checked.
mcounts = {"ok": 0, "raises": 0, "skipped": 0, "bdl-ok": 0, "bdl-raises": 0, "configs": 0}
mfuncs = set()
mdup = set()


def base_fails(c, aspect):
    """one key per defect site: a mixed finding is not reported again when the all-quantity form of the same
    template already fails with the same aspect (a wrong value is `value` or `bare-value` depending on whether
    the result still carries units)"""
    same = ("value", "bare-value") if aspect in ("value", "bare-value") else (aspect,)
    return any("C07[%s:%s:%s]" % (c.fname, c.tid.split("/")[0] + sfx, a) in seen
               for a in same for sfx in ("", c.tid[len(c.tid.split("/")[0]):]))


for c in cat.CASES:
    if c.text or c.tid.endswith("/obare"):
        continue
    if not mx.bare_subsets(c):
        continue
    tol = c.tol or 1e-9
    for draw in range(DRAWS):
        rng = random.Random("%d|%s|%s|%s|%d" % (seed, c.fname, c.tid, c.variant, draw))
        try:
            sd = make_slotdefs(c, rng)
            configs = mx.mixed_configs(c, sd)
        except Exception as e:
            driver_errors.append("mixed %s:%s[%s] %r" % (c.fname, c.tid, c.variant, e))
            continue
        for bare, form, sdm, expr in configs:
            mcounts["configs"] += 1
            mfuncs.add(c.fname)
            tag = "bare-" + "+".join(bare)
            how = {"same-numbers": "ndarray holding the numbers of a quantity slot"}.get(form, form)
            keep = c.keep if (c.keep and c.keep.partition("@")[0] not in bare) else None
            scaled = any(d not in "-X1" for d, *_ in sdm.values())
            ckey = "C07[%s:%s:%s]%s/%s" % (c.fname, c.tid, tag, c.variant, form)
            # (cov) covariance with the bare slots held fixed
            for s0, s1 in PAIRS:
                try:
                    st, found = H_run07(sdm, expr, s0, s1, keep=keep, tol=tol, nocov=c.nocov)
                except Exception as e:
                    driver_errors.append("mixed %s:%s[%s] %s %r" % (c.fname, c.tid, c.variant, tag, e))
                    continue
                mcounts[st] += 1
                if st == "skipped":
                    continue
                R.case(ckey, nontrivial=(st == "ok" and scaled),
                       sample={"expr": expr, "slots": c.variant, "bare": list(bare), "form": form, "systems": [s0, s1]}
                       if draw == 0 and form == "list" and c.tid == "density" else None)
                if st == "raises":
                    continue
                if c.garbage:
                    found = [(a, m) for a, m in found if a not in ("value", "bare-value", "inexact")]
                for aspect, msg in found:
                    key = "C07[%s:%s:%s:%s]" % (c.fname, c.tid, tag, aspect)
                    if key in seen:
                        continue
                    seen.add(key)
                    if base_fails(c, aspect):
                        mdup.add(key)       # the all-quantity form of this template already fails the same way
                        continue
                    R.fail(key, "%s with %s, %s as bare %s, %s -> %s: %s" % (expr, c.variant, "/".join(bare), how, s0, s1, msg),
                           replay_script(mx.replay_cov(sdm, expr, s0, s1, keep, tol, c.nocov, aspect)))
            # (bdl) bare == dimensionless
            if c.garbage or form != "ndarray":
                continue
            for s0 in sorted({p[0] for p in PAIRS}):
                try:
                    st, found = mx.M_run(sdm, expr, c.expr, bare, s0, tol)
                except Exception as e:
                    driver_errors.append("mixed-bdl %s:%s[%s] %s %r" % (c.fname, c.tid, c.variant, tag, e))
                    continue
                mcounts["bdl-" + st] += 1
                R.case(ckey + "/bdl", nontrivial=(st == "ok"))
                if st == "raises":
                    continue
                if c.nocov:
                    found = [(a, m) for a, m in found if a != "bdl-value"]
                for aspect, msg in found:
                    key = "C07[%s:%s:%s:%s]" % (c.fname, c.tid, tag, aspect)
                    if key in seen:
                        continue
                    seen.add(key)
                    R.fail(key, "%s with %s, %s as bare %s, in %s: %s" % (expr, c.variant, "/".join(bare), how, s0, msg),
                           replay_script(mx.replay_bdl(sdm, expr, c.expr, bare, s0, tol, aspect)))

R.notes.append("outcomes: %r" % counts)
R.notes.append("mixed configurations (subset of the array slots bare: ndarray, list, ndarray with the numbers of a quantity slot): %d functions, %r; %d mixed "
               "findings coincide with a failing all-quantity key of the same template and aspect and are not re-reported"
               % (len(mfuncs), mcounts, len(mdup)))
R.notes.append("functions/templates that raise on quantities in both systems (no covariance statement): " +
               "; ".join("%s(%s)" % (f, ",".join(sorted(t))) for f, t in sorted(raises.items())))
if handled_missing:
    R.notes.append("unyt-handled functions WITHOUT a template: %s" % handled_missing)
if driver_errors:
    R.notes.append("driver errors (%d): %s" % (len(driver_errors), driver_errors[:20]))
R.finish()
