# Runtime helpers of the C11 bounded driver.  The text of this file is inlined verbatim into
# every replay script, so it must stay self-contained (numpy + unyt only).
import cmath
import copy
import math
import os
import pickle
import shutil
import sys
import tempfile

import numpy as np
import unyt
from unyt import Unit, UnitRegistry, unyt_array, unyt_quantity
from unyt._unit_lookup_table import default_unit_symbol_lut as _DEFAULT_LUT, unit_prefixes as _PREFIXES

_US_COUNTER = [0]

# state of the default registry right after `import unyt`: every world starts from it, so that a
# case behaves in the driver exactly as in a fresh interpreter (lazily derived prefixed rows and
# the memoised registry id otherwise depend on what ran earlier in the process)
_DEF = unyt.unit_registry.default_unit_registry
_DEF_LUT0 = dict(_DEF.lut)
_DEF_CACHE0 = dict(_DEF._unit_object_cache)
_DEF_ID0 = _DEF.unit_system_id      # memoised now, as after hashing any unit right after import


def reset_default_registry():
    _DEF.lut.clear()
    _DEF.lut.update(_DEF_LUT0)
    _DEF._unit_object_cache.clear()
    _DEF._unit_object_cache.update(_DEF_CACHE0)
    if _DEF_ID0 is None:
        _DEF.__dict__.pop("_unit_system_id", None)
    else:
        _DEF._unit_system_id = _DEF_ID0


def clear_caches():
    """forget every memoised unit rule (functools.lru_cache) inside unyt, and SymPy's global
    expression cache: SymPy memoises x*1, x**p, ... by EQUALITY of the arguments, so a dimension
    object restored earlier in the process would otherwise be handed back to unrelated later
    computations and a case would depend on what ran before it"""
    try:
        from sympy.core.cache import clear_cache
        clear_cache()
    except Exception:
        pass
    for name, mod in list(sys.modules.items()):
        if name == "unyt" or name.startswith("unyt."):
            for v in list(vars(mod).values()):
                cc = getattr(v, "cache_clear", None)
                if callable(cc):
                    try:
                        cc()
                    except Exception:
                        pass


def usig(u):
    return ("U", str(u.expr), float(u.base_value), float(u.base_offset), str(u.dimensions))


def canon(x):
    if isinstance(x, unyt_array):
        return ("Q" if isinstance(x, unyt_quantity) else "A", str(x.dtype), tuple(x.shape),
                tuple(np.asarray(x).ravel().tolist()), usig(x.units))
    if isinstance(x, Unit):
        return usig(x)
    if isinstance(x, np.ndarray):
        return ("N", str(x.dtype), tuple(x.shape), tuple(x.ravel().tolist()))
    if isinstance(x, np.generic):
        if isinstance(x, (np.float64, np.bool_, np.int64, np.complex128)):
            return x.item()          # same value and precision as the builtin type
        return ("S", str(x.dtype), x.item())
    if isinstance(x, (bool, int, float, complex, str, bytes, type(None))):
        return x
    if isinstance(x, (list, tuple)):
        return tuple(canon(i) for i in x)
    if isinstance(x, dict):
        return tuple(sorted((str(k), canon(v)) for k, v in x.items()))
    return ("OBJ", type(x).__name__)


# data held in low precision: the library multiplies by Python floats or numpy float64 scalars
# depending on where a table row came from, which moves float16/float32 results by rounding noise
# (times the conditioning of e.g. sin at large arguments); real defects are O(1) differences
_DTYPE_TOL = {"float16": 5e-2, "float32": 1e-3, "complex64": 1e-3}


_SUBJECT_TOL = [0.0]


def set_subject_tol(o):
    """tolerance class of the case = precision of the data the ORIGINAL object holds (unyt turns
    intN data into float of the same item size when converting)"""
    t = 0.0
    dt = getattr(o, "dtype", None)
    if dt is not None:
        if dt.itemsize <= 2:
            t = 5e-2
        elif dt.itemsize <= 4 or dt == np.dtype("complex64"):
            t = 1e-3
    _SUBJECT_TOL[0] = t


_LOOSE = [False]


def _dtclass(d):
    return "float" if d.startswith("float") else "complex" if d.startswith("complex") else d


def same(a, b, rel=1e-12, atol=0.0):
    if isinstance(a, tuple) and isinstance(b, tuple):
        if len(a) != len(b):
            return False
        if (len(a) >= 3 and a[0] in ("Q", "A", "N", "S") and isinstance(a[1], str) and isinstance(b[1], str)
                and b[0] == a[0]):
            t = max(_DTYPE_TOL.get(a[1], 0.0), _SUBJECT_TOL[0])
            if _LOOSE[0]:
                if _dtclass(a[1]) != _dtclass(b[1]):
                    return False
                t = max(t, 5e-2)
            elif a[1] != b[1]:
                return False
            k = 2 if a[0] == "S" else 3        # position of the numbers; unit signature stays strict
            return all((same(i, j, t, t) if t else same(i, j)) if n == k else (n == 1 or same(i, j))
                       for n, (i, j) in enumerate(zip(a, b)))
        return all(same(i, j, rel, atol) for i, j in zip(a, b))
    if isinstance(a, bool) or isinstance(b, bool):
        return type(a) is type(b) and a == b
    if isinstance(a, (int, float, complex)) and isinstance(b, (int, float, complex)):
        if isinstance(a, complex) != isinstance(b, complex):
            return False
        if isinstance(a, float) != isinstance(b, float):
            return False
        if a == b:
            return True
        if isinstance(a, complex):
            if cmath.isnan(a) and cmath.isnan(b):
                return True
            return abs(a - b) <= rel * max(abs(a), abs(b)) + atol
        if isinstance(a, float) and math.isnan(a) and math.isnan(b):
            return True
        return abs(a - b) <= rel * max(abs(a), abs(b)) + atol
    return type(a) is type(b) and a == b


def same_up_to_precision(a, b):
    """the case holds float16/float32/int8/int16 data and the outcomes are equal except for the float
    width of the result and a relative difference below 5 % (subnormal float32 scale factors)"""
    if not _SUBJECT_TOL[0]:          # float64 / complex128 / int64 data: nothing is "only precision"
        return False
    _LOOSE[0] = True
    try:
        return same(a, b)
    finally:
        _LOOSE[0] = False


def outcome(fn):
    try:
        return ("ok", canon(fn()))
    except Exception as e:  # noqa
        return ("exc", type(e).__name__)


def lut_snapshot(reg):
    return {k: tuple(v) for k, v in reg.lut.items()}


def _row_same(a, b):
    return (len(a) == len(b) and float(a[0]) == float(b[0]) and a[1] == b[1]
            and float(a[2]) == float(b[2]) and a[3] == b[3] and bool(a[4]) == bool(b[4]))


def reg_diff(o_lut, r_reg, added=(), modified=(), removed=()):
    """compare a restored registry with the table the original had (as a map: keys and rows).
    Keys that are an SI prefix + a prefixable symbol are lazily derived rows and may be present
    on either side, but must be consistent when present.  Returns a sorted list of categories."""
    r_lut = r_reg.lut
    bad = set()
    primary = (set(_DEFAULT_LUT) | set(added)) - set(removed)
    for k in primary:
        cat = "added" if k in added else "modified" if k in modified else "defaults"
        if k not in o_lut:
            continue
        if k not in r_lut or not _row_same(o_lut[k], r_lut[k]):
            bad.add(cat + ":" + k)
    for k in removed:
        if k in r_lut or (k in r_reg):
            bad.add("removed:" + k)
    for k in r_lut:
        if k in primary or k in removed:
            continue
        if k in o_lut:
            if not _row_same(o_lut[k], r_lut[k]):
                bad.add("extra:" + k)
            continue
        ok = False
        for p, (pv, _) in _PREFIXES.items():
            b = k[len(p):]
            if k.startswith(p) and b in o_lut and o_lut[b][4]:
                row = r_lut[k]
                if (math.isclose(row[0], pv * o_lut[b][0], rel_tol=1e-12) and row[1] == o_lut[b][1]
                        and float(row[2]) == float(o_lut[b][2])):
                    ok = True
        if not ok:
            bad.add("extra:" + k)
    return sorted(bad)


def cats(diff):
    return sorted({d.split(":")[0] for d in diff})


def new_usname():
    _US_COUNTER[0] += 1
    return "c11us_%d_%d" % (os.getpid(), _US_COUNTER[0])


def run_ops(ops, q, o, extra):
    """evaluate every (name, source) of `ops` with q = object under test, o = the original"""
    ns = {"np": np, "unyt": unyt, "Unit": Unit, "unyt_array": unyt_array, "unyt_quantity": unyt_quantity,
          "UnitRegistry": UnitRegistry, "q": q, "o": o, "copy": copy, "pickle": pickle,
          "USNAME": new_usname(),
          "P": lambda s, v=2.0: unyt_quantity(v, s, registry=q.units.registry)}
    ns.update(extra)
    out = {}
    for name, src in ops:
        out[name] = outcome(lambda: eval(src, ns))
    return out


# ---- which registry does the result of a follow-up operation belong to? --------------------
def registry_of(x):
    if isinstance(x, Unit):
        return x.registry
    if isinstance(x, unyt_array):
        return x.units.registry
    return None


def bound_to(x, q, other=None):
    """the registry the unit of result `x` is bound to, relative to the operand `q` it was computed
    from: 'own' (q's registry), 'counterpart' (the registry of `other`, the second object of the
    original/restored pair), 'default' (unyt's global registry), 'foreign', or 'n/a' (no unit)"""
    reg = registry_of(x)
    if reg is None:
        return "n/a"
    if reg is registry_of(q):
        return "own"
    if reg is unyt.unit_registry.default_unit_registry:
        return "default"
    if other is not None and reg is registry_of(other):
        return "counterpart"
    return "foreign"


def run_bind(ops, q, o, extra, other=None):
    """like run_ops, but keeps the result objects: name -> (outcome, bound_to(result), result)"""
    ns = {"np": np, "unyt": unyt, "Unit": Unit, "unyt_array": unyt_array, "unyt_quantity": unyt_quantity,
          "UnitRegistry": UnitRegistry, "q": q, "o": o, "copy": copy, "pickle": pickle,
          "P": lambda s, v=2.0: unyt_quantity(v, s, registry=q.units.registry)}
    ns.update(extra)
    out = {}
    for name, src in ops:
        try:
            x = eval(src, ns)
            out[name] = (("ok", canon(x)), bound_to(x, q, other), x)
        except Exception as e:  # noqa
            out[name] = (("exc", type(e).__name__), "n/a", None)
    return out


def _untag(x, tagged, plain):
    if isinstance(x, str):
        return x.replace(tagged, plain)
    if isinstance(x, tuple):
        return tuple(_untag(i, tagged, plain) for i in x)
    return x


def follow_new_symbol(results, q, tag=""):
    """the follow-up program of a user who keeps working with the object: define, in q's OWN registry,
    a new unit c11new_<tag><operation> eight times as large as the unit of the operation's result, and
    convert the result (computed BEFORE the unit existed) to it.  A result that belongs to q's
    registry converts (value/8); a result handed out for another registry does not know the unit.
    `tag` makes the symbols of this call unique (a result bound to the counterpart's registry must not
    find a symbol of the same name that the counterpart's follow-up defined there); it is removed from
    the reported outcomes, so outcomes of different calls compare equal when they agree."""
    reg = registry_of(q)
    out, todo = {}, []
    # all units are defined first and all conversions follow (the registry re-hashes its whole table
    # the first time a unit is hashed after every change)
    for name, (oc, cls, x) in results.items():
        u = x if isinstance(x, Unit) else x.units if isinstance(x, unyt_array) else None
        if u is None:
            continue
        sym = "c11new_" + tag + name
        try:
            reg.add(sym, 8.0 * float(u.base_value), u.dimensions)
            todo.append((name, sym, x))
        except Exception as e:  # noqa
            out[name] = ("exc", "add:" + type(e).__name__)
    for name, sym, x in todo:
        out[name] = _untag(outcome(lambda: ((1.0 * x) if isinstance(x, Unit) else x).to(sym)),
                           "c11new_" + tag, "c11new_")
    return out
