"""Source text shared by bounded/c16.py and the replay programs it emits.  Everything the driver
evaluates is a python *source string* executed in a namespace initialised with PRELUDE, so a
replay is simply PRELUDE + setup + expression + the same checker call."""

PRELUDE = r'''
import copy as _copy, pickle as _pickle
import numpy as np
import unyt
from unyt import unyt_array, unyt_quantity, Unit
from unyt.exceptions import IterableUnitCoercionError

UF = {u.__name__: u for u in unyt_array._ufunc_registry if isinstance(u, np.ufunc)}


def _arr(shape, dt, k=0):
    """deterministic, strictly positive, non-integral, pairwise distinct data"""
    n = 1
    for s in shape:
        n *= s
    v = np.arange(n) * 1.5 + 2.25 + k
    dt = np.dtype(dt)
    if dt.kind == "c":
        v = v + 1j * (np.arange(n) + 0.5 + k)
    return v.astype(dt).reshape(shape)


def _desc(r):
    if isinstance(r, (tuple, list)):
        return "(" + ", ".join(_desc(x) for x in r) + ")"
    if isinstance(r, np.ndarray):
        return "%s%s%s" % (type(r).__name__, r.shape, (" " + str(r.units)) if hasattr(r, "units") else "")
    return type(r).__name__


def _has_unyt(r):
    if isinstance(r, (tuple, list)):
        return any(_has_unyt(x) for x in r)
    return isinstance(r, unyt_array)


def _cls(r, path="r"):
    """[(path, verdict, text)]: a unyt object is a unyt_quantity iff its shape is ()"""
    out = []
    if isinstance(r, (tuple, list)):
        for i, x in enumerate(r):
            out += _cls(x, "%s[%d]" % (path, i))
    elif isinstance(r, unyt_array):
        isq = isinstance(r, unyt_quantity)
        if r.shape == () and not isq:
            out.append((path, "0d-not-quantity", "%s is a %s of shape ()" % (path, type(r).__name__)))
        elif r.shape != () and isq:
            v = "multi-quantity" if r.size > 1 else "nonscalar-quantity"
            out.append((path, v, "%s is a unyt_quantity of shape %s (size %d)" % (path, r.shape, r.size)))
    return out


def _same_unit(a, b):
    return a is b or (a == b and str(a) == str(b))


def _idx(r, parent, expected):
    """indexing/iteration result r of `parent`; expected = the same index applied to a bare copy"""
    out = _cls(r)
    if not isinstance(r, unyt_array):
        return out + [("r", "not-unyt", "result is a bare %s" % type(r).__name__)]
    if r.shape != np.shape(expected):
        out.append(("r", "shape", "shape %s, NumPy gives %s" % (r.shape, np.shape(expected))))
    elif not np.array_equal(np.asarray(r), np.asarray(expected)):
        out.append(("r", "values", "values %r, NumPy gives %r" % (np.asarray(r), expected)))
    if r.units is None or not _same_unit(r.units, parent.units):
        out.append(("r", "units", "units %r, parent has %r" % (r.units, parent.units)))
    if getattr(r, "name", None) != parent.name:
        out.append(("r", "name", "name %r, parent has %r" % (getattr(r, "name", None), parent.name)))
    return out


def _bare(a):
    return np.array(np.asarray(a), copy=True)


def _bump(a):
    """write new, different values through the memory of a"""
    w = np.asarray(a)
    w[...] = w + ((1 + 1j) if w.dtype.kind == "c" else 1)


def _mem_view(r, parent):
    """r must be attached to parent's data (only meaningful for size > 0)"""
    if not isinstance(r, np.ndarray):
        return [("r", "not-array", "result is a %s" % type(r).__name__)]
    if r.size == 0 or parent.size == 0:
        return []
    out = []
    if not np.shares_memory(r, parent):
        out.append(("r", "not-shared", "np.shares_memory(result, parent) is False"))
    before = _bare(parent)
    try:
        _bump(r)
    except ValueError as e:
        out.append(("r", "not-writable", repr(e)))
    if np.array_equal(before, _bare(parent)):
        out.append(("r", "write-not-visible", "a write through the result did not reach the parent"))
    snap = _bare(r)
    _bump(parent)
    if np.array_equal(snap, _bare(r)):
        out.append(("r", "parent-write-not-visible", "a write into the parent did not reach the result"))
    return out


def _mem_copy(r, parent):
    """r must be independent of parent's data"""
    if not isinstance(r, np.ndarray):
        if isinstance(r, (int, float, complex, list, np.generic)):
            return []
        return [("r", "not-array", "result is a %s" % type(r).__name__)]
    out = []
    if np.shares_memory(r, parent):
        out.append(("r", "shared", "np.shares_memory(result, parent) is True"))
    if r.size == 0:
        return out
    before = _bare(parent)
    if r.flags.writeable:
        _bump(r)
        if not np.array_equal(before, _bare(parent)):
            out.append(("r", "write-leaked", "a write into the result changed the parent"))
    snap = _bare(r)
    _bump(parent)
    if not np.array_equal(snap, _bare(r)):
        out.append(("r", "parent-write-leaked", "a write into the parent changed the result"))
    return out


def _coerced(r, elems):
    """r = unyt_array(list of quantities/arrays): first element's unit, values converted"""
    out = _cls(r)
    if not isinstance(r, unyt_array):
        return out + [("r", "not-unyt", type(r).__name__)]
    u0 = elems[0].units
    if not _same_unit(r.units, u0):
        out.append(("r", "units", "units %r, first element has %r" % (r.units, u0)))
    exp = np.array([np.asarray(e, dtype="float64") * (e.units.base_value / u0.base_value) for e in elems])
    if r.shape != exp.shape:
        out.append(("r", "shape", "shape %s, expected %s" % (r.shape, exp.shape)))
    elif not np.allclose(np.asarray(r, dtype="float64"), exp, rtol=1e-12, atol=0):
        out.append(("r", "values", "values %r, expected %r (in %s)" % (np.asarray(r), exp, u0)))
    return out


def _out(b, unit, a0=False):
    """an out= buffer shaped like the bare result b: a quantity for 0-d results, else an array"""
    z = np.zeros_like(b)
    if np.ndim(z) == 0 and not a0:
        return unyt_quantity(np.asarray(z), unit)
    return unyt_array(np.asarray(z), unit)


def _must_raise(fn, exc):
    try:
        res = fn()
    except exc:
        return []
    except Exception as e:
        return [("r", "wrong-exception", "raised %r instead of %s" % (e, exc.__name__))]
    return [("r", "no-raise", "returned %s instead of raising %s" % (_desc(res), exc.__name__))]
'''
