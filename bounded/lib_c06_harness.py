"""Shared machinery for the C06 / C07 bounded drivers: slot specs -> seeded data, environments
with units / stripped / re-expressed in another unit system, evaluation of call templates,
comparators and replay generation.  The functions listed in HARNESS_FUNCS are self-contained
(they only need `np` and `unyt`) and their source is embedded verbatim into replay scripts."""
import inspect
import io
import re

import numpy as np
import unyt

# ----------------------------------------------------------------------------- embedded part
SYSTEMS = {
    # ordinary units
    "plain": {"L": "cm", "T": "ms", "M": "g", "A": "rad", "X": "cd", "1": "dimensionless"},
    "plain2": {"L": "km", "T": "hr", "M": "lb", "A": "degree", "X": "cd", "1": "dimensionless"},
    "O0": {"L": "m", "T": "s", "M": "kg", "A": "rad", "X": "cd", "1": "dimensionless"},
    "O1": {"L": "inch", "T": "minute", "M": "lb", "A": "degree", "X": "cd", "1": "dimensionless"},
    "O2": {"L": "cm", "T": "ms", "M": "g", "A": "mrad", "X": "cd", "1": "dimensionless"},
    # custom registry, all scales are even powers of two (sqrt stays exact)
    "D0": {"L": "Lb4", "T": "Tb16", "M": "Mb4", "A": "Ab4", "X": "cd", "1": "dimensionless"},
    "D1": {"L": "Ls16", "T": "Ts4", "M": "Ms4", "A": "As4", "X": "cd", "1": "dimensionless"},
    "D2": {"L": "Ls256", "T": "Ts64", "M": "Ms64", "A": "As64", "X": "cd", "1": "dimensionless"},
}
_REG = []


def H_registry():
    if not _REG:
        from unyt import UnitRegistry, dimensions as d
        reg = UnitRegistry()
        for name, val, dim in (("Lb4", 4.0, d.length), ("Ls16", 1 / 16, d.length), ("Ls256", 1 / 256, d.length),
                               ("Tb16", 16.0, d.time), ("Ts4", 0.25, d.time), ("Ts64", 1 / 64, d.time),
                               ("Mb4", 4.0, d.mass), ("Ms4", 0.25, d.mass), ("Ms64", 1 / 64, d.mass),
                               ("Ab4", 4.0, d.angle), ("As4", 0.25, d.angle), ("As64", 1 / 64, d.angle)):
            reg.add(name, val, dim)
        _REG.append(reg)
    return _REG[0]


def H_unit(sysname, dim):
    from unyt import Unit
    name = SYSTEMS[sysname][dim]
    if sysname.startswith("D"):
        return Unit(name, registry=H_registry())
    return Unit(name)


def H_raw(sd):
    """sd = (dim, dtype, shape, flat values) -> bare ndarray"""
    dim, dt, shape, flat = sd
    if dt.startswith("complex"):
        flat = [complex(*z) for z in flat]
    return np.array(flat, dtype=dt).reshape(shape)


def H_env(slotdefs, sysname, ref=None):
    """Environment for evaluating a template.  sysname None -> every slot bare (stripped).
    ref None -> the numbers of slotdefs are taken in `sysname` units; otherwise the numbers are
    understood in system `ref` and re-expressed (multiplied by an independently computed factor)
    in `sysname`; returns None when an integer slot cannot be re-expressed as integers."""
    from unyt import unyt_array, unyt_quantity
    env = {}
    for name, sd in slotdefs.items():
        raw = H_raw(sd)
        dim = sd[0]
        if dim == "-" or sysname is None:
            env[name] = raw
            continue
        u = H_unit(sysname, dim)
        if ref is not None and ref != sysname and dim != "X":
            f = float(H_unit(ref, dim).base_value) / float(u.base_value)
            if raw.dtype.kind in "iu":
                big = [int(v) * f for v in raw.ravel().tolist()]
                if f == int(f) and all(abs(b) <= np.iinfo(raw.dtype).max for b in big):
                    raw = raw * raw.dtype.type(int(f))
                else:
                    return None
            elif raw.dtype.kind in "fc":
                raw = (raw * f).astype(raw.dtype)
        if raw.ndim == 0:
            env[name] = unyt_quantity(raw[()], u)
        else:
            env[name] = unyt_array(raw, u)
    return env


def H_canon(v, axis=-2):
    """fix the sign/phase ambiguity of eigen/singular vectors: divide every vector (running along
    `axis`) by the phase of its largest-magnitude component"""
    b = np.asarray(v)
    idx = np.expand_dims(np.abs(b).argmax(axis=axis), axis)
    piv = np.take_along_axis(b, idx, axis)
    ph = np.where(piv == 0, 1.0, piv / np.where(piv == 0, 1.0, np.abs(piv)))
    return v / ph


def H_eval(expr, env):
    import io
    g = {"np": np, "unyt": unyt, "io": io, "canon": H_canon}
    g.update(env)
    try:
        return "ok", eval(expr, g)
    except Exception as e:  # noqa
        return "exc", e


def H_leaves(r, path="r"):
    if isinstance(r, (tuple, list)):
        out = []
        for i, x in enumerate(r):
            out += H_leaves(x, "%s[%d]" % (path, i))
        return out
    if isinstance(r, (np.flatiter,)) or (hasattr(r, "__next__") and not isinstance(r, np.ndarray)):
        return H_leaves(list(r), path)
    return [(path, r)]


def H_arr(x):
    """(is_array_like, bare ndarray or object)"""
    if isinstance(x, np.ndarray):
        return True, x.view(np.ndarray)
    if isinstance(x, (np.generic, bool, int, float, complex)):
        return True, np.asarray(x)
    return False, x


def H_same(a, b):
    """exact, nan-aware equality of two bare arrays of equal shape"""
    if a.dtype.kind in "fc" or b.dtype.kind in "fc":
        return bool(np.array_equal(a, b, equal_nan=True))
    return bool(np.array_equal(a, b))


def H_cmp06(r, e, text=False, garbage=False):
    """C06: result `r` on quantities vs `e` on stripped data -> list of (aspect, message)"""
    lr, le = H_leaves(r), H_leaves(e)
    if len(lr) != len(le) or [p for p, _ in lr] != [p for p, _ in le]:
        return [("structure", "result structure %s vs numpy %s" % ([p for p, _ in lr][:8], [p for p, _ in le][:8]))]
    out = []
    for (p, x), (_, y) in zip(lr, le):
        ax, vx = H_arr(x)
        ay, vy = H_arr(y)
        if ax != ay:
            out.append(("structure", "%s: %s vs numpy %s" % (p, type(x).__name__, type(y).__name__)))
            continue
        if not ax:
            if text and isinstance(x, (str, bytes)) and isinstance(y, (str, bytes)):
                continue
            try:
                same = (x is y) or bool(x == y)
            except Exception:
                same = False
            if not same:
                out.append(("values", "%s: %r vs numpy %r" % (p, x, y)))
            continue
        if vx.shape != vy.shape:
            out.append(("shape", "%s: shape %s vs numpy %s" % (p, vx.shape, vy.shape)))
            continue
        if vx.dtype.kind != vy.dtype.kind:
            out.append(("dtype", "%s: dtype %s vs numpy %s" % (p, vx.dtype, vy.dtype)))
            continue
        if vx.dtype != vy.dtype:
            out.append(("itemsize", "%s: dtype %s vs numpy %s" % (p, vx.dtype, vy.dtype)))
        if garbage:
            continue
        if not H_same(vx, vy):
            out.append(("values", "%s: values %s vs numpy %s" % (p, np.array2string(vx.ravel()[:8]), np.array2string(vy.ravel()[:8]))))
    return out


def H_close(a, b, exact, tol, eps=2.3e-16):
    """-> 'same' | 'inexact' | 'diff' for bare arrays of equal shape"""
    if a.size == 0:
        return "same"
    if H_same(a, b):
        return "same"
    if a.dtype.kind in "biu" and b.dtype.kind in "biu":
        return "diff"
    a = a.astype(complex) if a.dtype.kind == "c" or b.dtype.kind == "c" else a.astype("float64")
    b = b.astype(a.dtype)
    na, nb = np.isnan(a), np.isnan(b)
    if not np.array_equal(na, nb):
        return "diff"
    fa, fb = np.isinf(a), np.isinf(b)
    if not np.array_equal(fa, fb) or not np.array_equal(a[fa], b[fb]):
        return "diff"
    ok = ~(na | fa)
    if not ok.any():
        return "same"
    a, b = a[ok], b[ok]
    scale = max(np.abs(a).max(), np.abs(b).max())
    err = np.abs(a - b).max()
    if exact:
        if err <= 4 * eps * scale:
            return "same"
        return "inexact" if err <= tol * scale else "diff"
    return "same" if err <= tol * scale else "diff"


def H_eps(*arrs):
    e = 2.3e-16
    for a in arrs:
        if isinstance(a, np.ndarray) and a.dtype.kind in "fc":
            e = max(e, float(np.finfo(a.dtype).eps))
    return e


def H_mag(env):
    """largest finite input magnitude of an environment (at least 1)"""
    m = 1.0
    for v in env.values():
        b = np.asarray(v)
        if b.dtype.kind in "fc" and b.size:
            a = np.abs(b[np.isfinite(b)])
            if a.size:
                m = max(m, float(a.max()))
    return m


def H_snap(v, floor):
    """cancellation residue (|v| < floor, floor = 1e-13 x largest input magnitude) counts as zero"""
    if floor and isinstance(v, np.ndarray) and v.dtype.kind in "fc" and v.size:
        v = np.where(np.abs(v) < floor, 0, v)
    return v


def H_cmp07_leaf(p, x0, x1, exact, tol, eps=2.3e-16, floors=(0, 0)):
    from unyt import unyt_array
    q0, q1 = isinstance(x0, unyt_array), isinstance(x1, unyt_array)
    a0, v0 = H_arr(x0)
    a1, v1 = H_arr(x1)
    v0, v1 = H_snap(v0, floors[0]), H_snap(v1, floors[1])
    if a0 and a1:
        eps = max(eps, H_eps(v0, v1))
        tol = max(tol, 64 * eps)
    if q0 != q1 or a0 != a1:
        return [("type", "%s: %s vs %s after re-expression" % (p, type(x0).__name__, type(x1).__name__))]
    if not a0:
        return []
    if v0.shape != v1.shape:
        return [("shape", "%s: shape %s vs %s after re-expression" % (p, v0.shape, v1.shape))]
    if q0:
        u0, u1 = x0.units, x1.units
        if u0.dimensions != u1.dimensions:
            return [("dims", "%s: units %s vs %s after re-expression (different dimensions)" % (p, u0, u1))]
        f = float(u1.base_value) / float(u0.base_value)
        w1 = v1 * f if v1.dtype.kind in "fc" else v1.astype("float64") * f
        c = H_close(v0, w1, exact, tol, eps)
        if c != "same":
            return [("value" if c == "diff" else "inexact",
                     "%s: %s %s vs %s %s (= %s %s): not the same quantity" % (
                         p, np.array2string(v0.ravel()[:6]), u0, np.array2string(v1.ravel()[:6]), u1,
                         np.array2string(np.asarray(w1).ravel()[:6]), u0))]
        return []
    c = H_close(v0, v1, exact, tol, eps)
    if c != "same":
        return [("bare-value" if c == "diff" else "inexact",
                 "%s: unit-less result changed under re-expression of the inputs: %s vs %s" % (
                     p, np.array2string(v0.ravel()[:6]), np.array2string(v1.ravel()[:6])))]
    return []


def H_cmp07(r0, r1, exact, tol=1e-9, eps=2.3e-16, floors=(0, 0)):
    l0, l1 = H_leaves(r0), H_leaves(r1)
    if [p for p, _ in l0] != [p for p, _ in l1]:
        return [("structure", "result structure %s vs %s" % ([p for p, _ in l0][:8], [p for p, _ in l1][:8]))]
    out = []
    for (p, x), (_, y) in zip(l0, l1):
        out += H_cmp07_leaf(p, x, y, exact, tol, eps, floors)
    return out


def H_keep(r, env, keep):
    """dimension-preserving functions: the selected leaves must be unyt arrays commensurable
    with slot `keep` ('A' = all array leaves, 'A@0' = leaf 0 only)"""
    from unyt import unyt_array
    slot, _, idx = keep.partition("@")
    want = env[slot].units.dimensions
    lv = H_leaves(r)
    if idx:
        lv = [lv[int(idx)]]
    out = []
    for p, x in lv:
        if not H_arr(x)[0]:
            continue
        if not isinstance(x, unyt_array):
            out.append(("units-dropped", "%s is a bare %s, expected a quantity commensurable with %s" % (
                p, type(x).__name__, env[slot].units)))
        elif x.units.dimensions != want:
            out.append(("units-dropped", "%s has units %s, not commensurable with the input's %s" % (
                p, x.units, env[slot].units)))
    return out


def H_run06(sd, expr, sysname, text=False, garbage=False):
    """-> (status, findings): status in ok | raises | both-raise | bare-raises"""
    eu, eb = H_env(sd, sysname), H_env(sd, None)
    with np.errstate(all="ignore"):
        sb, e = H_eval(expr, eb)
        su, r = H_eval(expr, eu)
    if sb == "exc":
        return ("both-raise" if su == "exc" else "bare-raises"), [("info", repr(e)[:200])]
    if su == "exc":
        return "raises", [("info", "%s: %s" % (type(r).__name__, str(r)[:160]))]
    try:
        out = H_cmp06(r, e, text, garbage)
    except Exception as ex:  # a result object so broken that it cannot be inspected
        return "ok", [("broken-result", "inspecting the result failed: %r" % (ex,))]
    for name in sd:
        for a, m in H_cmp06(eu[name], eb[name]):
            if a in ("shape", "values"):
                out.append(("slot-%s-%s" % (name, a), "after the call, slot %s: %s" % (name, m)))
        if eu[name].dtype != eb[name].dtype:
            out.append(("slot-%s-retyped" % name, "slot %s had dtype %s and has dtype %s after the call" % (
                name, eb[name].dtype, eu[name].dtype)))
    return "ok", out


def H_run07(sd, expr, sys0, sys1, keep=None, tol=1e-9, nocov=False):
    """-> (status, findings): status in ok | raises"""
    from unyt import unyt_array
    e0, e1 = H_env(sd, sys0), H_env(sd, sys1, ref=sys0)
    if e1 is None:
        return "skipped", [("info", "integer quantity has no integer re-expression in %s" % sys1)]
    eps = H_eps(*e0.values())
    floors = (0, 0)
    if not sys0.startswith("D"):
        floors = (1e-13 * H_mag(e0), 1e-13 * H_mag(e1))
    with np.errstate(all="ignore"):
        s0, r0 = H_eval(expr, e0)
        s1, r1 = H_eval(expr, e1)
    if s0 == "exc" and s1 == "exc":
        return "raises", [("info", "%s: %s" % (type(r0).__name__, str(r0)[:160]))]
    if s0 != s1:
        return "ok", [("raise-asym", "in %s units -> %s, in %s units -> %s" % (
            sys0, repr(r0)[:150] if s0 == "exc" else "a result", sys1, repr(r1)[:150] if s1 == "exc" else "a result"))]
    exact = sys0.startswith("D")
    out = []
    try:
        if keep:
            out += H_keep(r0, e0, keep)
        out += H_cmp07(r0, r1, exact, tol, eps, floors)
    except Exception as ex:  # a result object so broken that it cannot be inspected (e.g. units None)
        return "ok", [("broken-result", "inspecting the result failed: %r" % (ex,))]
    for name in sd:
        if isinstance(e0[name], unyt_array) or isinstance(e1[name], unyt_array):
            for a, m in H_cmp07(e0[name], e1[name], exact, tol, eps, floors):
                out.append(("slot-%s-%s" % (name, a), "after the call, slot %s: %s" % (name, m)))
    if nocov:   # rounding / integer casts / explicit subok=False: only types, dimensions and shapes are compared
        out = [(a, m) for a, m in out if not a.endswith("value") and not a.endswith("inexact")]
    inexact_pair = sys1 == "O1"
    if any(a.endswith("inexact") or (inexact_pair and a.endswith("value")) for a, _ in out):
        # not bit-exact under an exact rescaling, or any value mismatch under ordinary units (m -> cm, inch:
        # cancellation, values on bin edges ...): NumPy's own floating point behaviour if the bare
        # computation on the same numbers gives exactly the numbers unyt returned in both systems
        b0 = dict((k, np.array(v.view(np.ndarray))) for k, v in H_env(sd, sys0).items())
        b1 = dict((k, np.array(v.view(np.ndarray))) for k, v in H_env(sd, sys1, ref=sys0).items())
        with np.errstate(all="ignore"):
            t0, n0 = H_eval(expr, b0)
            t1, n1 = H_eval(expr, b1)
        if t0 == "ok" and t1 == "ok" and not [a for a, _ in H_cmp06(r0, n0) + H_cmp06(r1, n1) if a in ("values", "shape", "structure")]:
            out = [(a, m) for a, m in out if not a.endswith("inexact") and not (inexact_pair and a.endswith("value"))]
    return "ok", out


HARNESS_FUNCS = [H_registry, H_unit, H_raw, H_env, H_canon, H_eval, H_leaves, H_arr, H_same, H_cmp06, H_close,
                 H_eps, H_mag, H_snap, H_cmp07_leaf, H_cmp07, H_keep, H_run06, H_run07]

# ----------------------------------------------------------------------------- data generation
SHAPES = {"0": (), "1": (5,), "2": (3, 4), "s": (3, 3), "e": (0,), "E": (0, 3), "3": (2, 3, 4),
          "t": (2, 3, 3), "v": (3,), "w": (2, 3), "6": (6,), "8": (8,), "q": (4, 4), "o": (1,), "r": (1, 4)}
DTYPES = {"f": "float64", "g": "float32", "h": "float16", "i": "int64", "j": "int32", "k": "int8",
          "c": "complex128", "d": "complex64", "b": "bool", "u": "uint8"}
_SPEC = re.compile(r"^([a-z])(\[[0-9x]*\]|.)([+^~=$!z]*)$")


def parse_spec(spec):
    m = _SPEC.match(spec)
    if not m:
        raise ValueError("bad spec %r" % spec)
    dt, sh, flags = m.groups()
    if sh.startswith("["):
        shape = tuple(int(t) for t in sh[1:-1].split("x") if t)
    else:
        shape = SHAPES[sh]
    return DTYPES[dt], shape, flags


def gen(spec, rng):
    """seeded data for one slot -> (dtype, shape, flat python values)"""
    dt, shape, flags = parse_spec(spec)
    n = 1
    for s in shape:
        n *= s
    kind = np.dtype(dt).kind
    if kind == "b":
        vals = [rng.random() < 0.5 for _ in range(n)]
        if n >= 2:
            i, j = rng.sample(range(n), 2)
            vals[i], vals[j] = True, False
        if len(shape) == 2 and shape[1] >= 2:      # every row and every column keeps a True
            for r_ in range(shape[0]):
                if not any(vals[r_ * shape[1]:(r_ + 1) * shape[1]]):
                    vals[r_ * shape[1] + rng.randrange(shape[1])] = True
            for c_ in range(shape[1]):
                if not any(vals[c_::shape[1]]):
                    vals[c_ + shape[1] * rng.randrange(shape[0])] = True
        return dt, shape, vals
    if kind in "iu":
        lo, hi = (1, 6) if ("+" in flags or kind == "u") else (-5, 5)
        pool = [k for k in range(lo, hi + 1) if k != 0]
        vals = [rng.choice(pool) for _ in range(n)]
        if "=" not in flags and n <= len(pool):
            vals = rng.sample(pool, n)
        if "z" in flags and n >= 2:
            vals[rng.randrange(n)] = 0
        if "^" in flags:
            vals = sorted(vals)
        return dt, shape, vals
    step = 8.0

    def draw(m, positive):
        pool = list(range(1, 41)) if positive else [k for k in range(-40, 41) if k != 0]
        if "=" in flags:
            base = rng.sample(pool, 3)
            ks = [rng.choice(base) for _ in range(m)]
            if m >= 2:
                ks[1] = ks[0]
        elif m <= len(pool):
            ks = rng.sample(pool, m)
        else:
            ks = [rng.choice(pool) for _ in range(m)]
        return [k / step for k in ks]

    pos = "+" in flags
    if "$" in flags or "!" in flags:
        m = shape[-1]
        lead = n // (m * m) if m else 0
        vals = []
        for _ in range(lead):
            b = np.array([rng.randint(-3, 3) / 2.0 for _ in range(m * m)]).reshape(m, m)
            if "$" in flags:
                a = b @ b.T + np.diag([float(m + 2 + 3 * i) for i in range(m)])
            else:
                a = b + np.diag([float(8 + 2 * i) for i in range(m)])
            vals += [float(t) for t in a.ravel()]
        if kind == "c":
            vals = [(v, 0.0) for v in vals]
        return dt, shape, vals
    vals = draw(n, pos)
    if "z" in flags and n >= 2:
        vals[rng.randrange(n)] = 0.0
        vals[0] = 0.0
    if "^" in flags:
        vals = sorted(vals)
    if "~" in flags and n >= 2:
        for i in rng.sample(range(n), max(1, n // 4)):
            vals[i] = float("nan")
    if kind == "c":
        im = draw(n, False)
        vals = [(v, w) for v, w in zip(vals, im)]
    return dt, shape, vals


def make_slotdefs(case, rng):
    """case.slots: name -> (dim, spec) where spec may be '@expr' (an out buffer shaped like the
    bare result of expr).  Returns slotdefs name -> (dim, dtype, shape, flat)."""
    sd = {}
    late = []
    for name, (dim, spec) in case.slots.items():
        if spec.startswith("@"):
            late.append((name, dim, spec[1:]))
            continue
        dt, shape, vals = gen(spec, rng)
        sd[name] = (dim, dt, shape, vals)
    for name, dim, expr in late:
        st, e = H_eval(expr, H_env(sd, None))
        if st == "exc":
            raise RuntimeError("out-shape expression %r failed on bare data: %r" % (expr, e))
        a = np.asarray(e)
        dt = a.dtype.name
        sd[name] = (dim, dt, a.shape, [(0.0, 0.0)] * a.size if a.dtype.kind == "c" else [0] * a.size)
    return sd


def replay_source(body_lines, slotdefs, expr):
    src = "SYSTEMS = %r\n_REG = []\n" % (SYSTEMS,)
    for f in HARNESS_FUNCS:
        src += inspect.getsource(f) + "\n"
    src += "nan = float('nan'); inf = float('inf')\n"
    src += "SD = %r\nEXPR = %r\n" % (slotdefs, expr)
    src += "\n".join(body_lines) + "\n"
    return src
