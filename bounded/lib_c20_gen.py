"""C20 helpers: string generators (grammar / token mutations / byte fuzz), the vocabulary oracle,
and the checks that run inside the worker processes.  Imported by c20.py only."""
import builtins
import io
import math
import os
import random
import re
import tokenize
import traceback
from fractions import Fraction

import unyt
from unyt import Unit, UnitRegistry
from unyt import dimensions as D
from unyt._unit_lookup_table import (default_unit_symbol_lut as LUT, unit_prefixes,
                                     default_unit_name_alternatives as ALT, inv_name_alternatives as INV)
from unyt.exceptions import UnitParseError, InvalidUnitOperation
from sympy import Symbol, Integer, Rational, Float, Number, Mul, Pow

UNYT_DIR = os.path.dirname(os.path.abspath(unyt.__file__))
CANARY_FILE = "/tmp/c20_canary_%d" % os.getpid()

# ------------------------------------------------------------------------------------------
# registries (the same source text is prepended to replays)
# ------------------------------------------------------------------------------------------
REG_SRC = '''
import unyt
from unyt import Unit, UnitRegistry
from unyt import dimensions as _D
from unyt.exceptions import UnitParseError
def c20_registries():
    regs = {"default": None}
    r = UnitRegistry()
    r.add("code_length", 3.0857e19, _D.length)
    r.add("code_mass", 1.989e40, _D.mass, prefixable=True)
    r.add("code_temp", 2.5, _D.temperature, offset=10.0)
    r.add("zork", 7.0, _D.length / _D.time, prefixable=True)
    r.modify("pc", 2.0)
    regs["custom"] = r
    b = UnitRegistry(add_default_symbols=False)
    b.add("code_length", 3.0857e19, _D.length)
    b.add("code_time", 3.15e13, _D.time)
    b.add("blip", 0.5, _D.mass, prefixable=True)
    regs["bare"] = b
    regs["json"] = UnitRegistry.from_json(r.to_json())
    return regs
'''
_ns = {}
exec(REG_SRC, _ns)
REGS = _ns["c20_registries"]()
REG_ATOMS = {
    "default": [],
    "custom": ["code_length", "code_mass", "kcode_mass", "code_temp", "zork", "Mzork", "pc", "kpc"],
    "json": ["code_length", "code_mass", "kcode_mass", "code_temp", "zork", "Mzork", "pc", "kpc"],
    "bare": ["code_length", "code_time", "blip", "kblip"],
}


def reg_of(name):
    return REGS[name]


def mk(s, regname):
    r = REGS[regname]
    return Unit(s) if r is None else Unit(s, registry=r)


# ------------------------------------------------------------------------------------------
# name tables
# ------------------------------------------------------------------------------------------
SYMS = list(LUT)
PREFIXABLE = [k for k, row in LUT.items() if row[4]]
PREFIXES = list(unit_prefixes)
MICRO = ("u", "µ", "μ")


def spellings(prefix, sym):
    """documented spellings of (prefix, table symbol): symbol form(s) plus alias words found in the
    alternatives table that the library maps to the same canonical symbol"""
    canon = INV.get(prefix + sym, prefix + sym)
    out = [prefix + sym]
    if prefix in MICRO:
        out += [p + sym for p in MICRO if p != prefix]
    cands = []
    word = unit_prefixes[prefix][1] if prefix else ""
    for a in ALT.get(sym, ()):
        cands += [word + a, (word + a).title()]
        if len(a) < 4:
            cands.append(prefix + a)
    for c in cands:
        if c and INV.get(c) == canon and c not in out:
            out.append(c)
    return out


# ------------------------------------------------------------------------------------------
# grammar: an AST is (coefficient Fraction, [(prefix, sym, Fraction exponent), ...])
# ------------------------------------------------------------------------------------------
EXPS = [Fraction(1), Fraction(1), Fraction(1), Fraction(2), Fraction(3), Fraction(-1), Fraction(-2), Fraction(-3),
        Fraction(1, 2), Fraction(-1, 2), Fraction(3, 2), Fraction(-3, 2), Fraction(1, 3), Fraction(2, 3),
        Fraction(1, 4), Fraction(5, 2), Fraction(4), Fraction(-4), Fraction(1, 10), Fraction(7, 3)]
COEFS = [Fraction(2), Fraction(3), Fraction(1, 2), Fraction(1000), Fraction(5, 2), Fraction(1, 10), Fraction(100),
         Fraction(7, 4), Fraction(1, 1000), Fraction(12)]


def gen_ast(rng, regname="default"):
    n = rng.choice([1, 1, 2, 2, 3, 3, 4, 5])
    facs, seen = [], set()
    extra = REG_ATOMS.get(regname, [])
    for _ in range(n):
        r = rng.random()
        if extra and r < 0.35:
            a = ("", rng.choice(extra))
        elif regname == "bare":
            a = ("", rng.choice(extra))
        elif r < 0.7:
            a = (rng.choice(PREFIXES), rng.choice(PREFIXABLE))
        else:
            a = ("", rng.choice(SYMS))
        canon = INV.get(a[0] + a[1], a[0] + a[1])
        if canon in seen:
            continue
        seen.add(canon)
        facs.append((a[0], a[1], rng.choice(EXPS)))
    coef = rng.choice(COEFS) if rng.random() < 0.2 else Fraction(1)
    return coef, facs


def _sp(rng):
    return rng.choice(["", "", "", " ", " ", "  ", "\t"])


def _num(rng, q, allow_float=True):
    """spell the rational q as a python-literal expression that denotes exactly q"""
    forms = []
    if q.denominator == 1:
        forms += [str(q.numerator), str(q.numerator), "%d.0" % q.numerator, "(%d)" % q.numerator]
        if abs(q.numerator) >= 1000 and q.numerator % 1000 == 0:
            forms.append("%de3" % (q.numerator // 1000))
    else:
        forms += ["(%d/%d)" % (q.numerator, q.denominator), "(%d / %d)" % (q.numerator, q.denominator)]
        d = q.denominator
        while d % 2 == 0:
            d //= 2
        while d % 5 == 0:
            d //= 5
        if d == 1 and allow_float:        # exact finite decimal
            from decimal import Decimal
            dec = str(Decimal(q.numerator) / Decimal(q.denominator))
            forms += [dec, "(%s)" % dec]
            if dec.startswith("0."):
                forms.append(dec[1:])
            elif dec.startswith("-0."):
                forms.append("-" + dec[2:])
    return rng.choice(forms)


def _name(rng, prefix, sym, regname, alias=True):
    if regname != "default" and (prefix + sym) in REG_ATOMS.get(regname, []):
        return prefix + sym
    if sym not in LUT:
        return prefix + sym
    sps = spellings(prefix, sym) if alias else [prefix + sym]
    return rng.choice(sps) if rng.random() < 0.5 else sps[0]


def _pow(rng, base, e, atom=True):
    """render base**e"""
    if e == 1:
        return base if rng.random() < 0.85 else "%s**%s" % (base, rng.choice(["1", "1.0", "(1)"]))
    if e == Fraction(1, 2) and rng.random() < 0.35:
        return "sqrt(%s)" % base
    if not atom:
        base = "(%s)" % base
    return "%s%s**%s%s" % (base, _sp(rng), _sp(rng), _num(rng, e))


def render(rng, ast, regname="default", alias=True):
    coef, facs = ast
    s = _render_facs(rng, list(facs), regname, alias, 0)
    if coef != 1:
        c = _num(rng, coef)
        s = rng.choice(["%s%s*%s%s" % (c, _sp(rng), _sp(rng), s), "%s%s*%s%s" % (s, _sp(rng), _sp(rng), c)]) \
            if "/" not in s else "%s%s*%s(%s)" % (c, _sp(rng), _sp(rng), s)
    if rng.random() < 0.15:
        s = _sp(rng) + s + _sp(rng)
    return s


def _render_facs(rng, facs, regname, alias, depth):
    rng.shuffle(facs)
    # optionally split one factor  x**e -> x**a * x**(e-a)
    if facs and rng.random() < 0.15:
        i = rng.randrange(len(facs))
        p, s, e = facs[i]
        a = rng.choice([Fraction(1), Fraction(-1), Fraction(1, 2), Fraction(2)])
        if e - a != 0:
            facs[i] = (p, s, a)
            facs.append((p, s, e - a))
            rng.shuffle(facs)
    group = None
    if depth < 2 and len(facs) >= 1 and rng.random() < 0.3:
        g = rng.choice([Fraction(2), Fraction(1, 2), Fraction(-1), Fraction(3), Fraction(3, 2), Fraction(-2)])
        k = rng.randint(1, len(facs))
        inner = [(p, s, e / g) for p, s, e in facs[:k]]
        facs = facs[k:]
        group = _pow(rng, _render_facs(rng, inner, regname, alias, depth + 1), g, atom=False)
        if not group.startswith("sqrt(") and "**" not in group:
            group = "(%s)" % group
    num, den = [], []
    for p, s, e in facs:
        nm = _name(rng, p, s, regname, alias)
        if e < 0 and rng.random() < 0.6:
            den.append(_pow(rng, nm, -e))
        else:
            num.append(_pow(rng, nm, e))
    if group is not None:
        num.insert(rng.randint(0, len(num)), group)
    out = ""
    if not num:
        out = "1"
    else:
        out = num[0]
        for x in num[1:]:
            out += _sp(rng) + "*" + _sp(rng) + x
    for x in den:
        if rng.random() < 0.25 and "sqrt" not in x:
            out += _sp(rng) + "*" + _sp(rng) + "(1/%s)" % x if "**" not in x else _sp(rng) + "/" + _sp(rng) + x
        else:
            out += _sp(rng) + "/" + _sp(rng) + x
    return out


# independent table of the symbols the custom registries add or change
_CUSTOM = {"code_length": (3.0857e19, D.length), "code_mass": (1.989e40, D.mass), "kcode_mass": (1.989e43, D.mass),
           "code_temp": (2.5, D.temperature), "zork": (7.0, D.length / D.time), "Mzork": (7.0e6, D.length / D.time),
           "pc": (2.0, D.length), "kpc": (2000.0, D.length)}
_BARE = {"code_length": (3.0857e19, D.length), "code_time": (3.15e13, D.time), "blip": (0.5, D.mass),
         "kblip": (500.0, D.mass)}
REG_VALUES = {"default": {}, "custom": _CUSTOM, "json": _CUSTOM, "bare": _BARE}


def expected(ast, regname):
    """independent value/dimension of an AST from the lookup tables"""
    coef, facs = ast
    over = REG_VALUES[regname]
    val = float(coef)
    dims = 1
    for p, s, e in facs:
        if p + s in over:
            v, d = over[p + s]
        elif s in over:
            v, d = over[s][0] * unit_prefixes[p][0], over[s][1]
        else:
            row = LUT[s]
            v, d = row[0] * (unit_prefixes[p][0] if p else 1.0), row[1]
        val *= v ** float(e)
        dims = dims * d ** Rational(e.numerator, e.denominator)
    return val, dims


# ------------------------------------------------------------------------------------------
# mutations and byte fuzz
# ------------------------------------------------------------------------------------------
TOK_RE = re.compile(r"\*\*|[A-Za-z_µμΩÅ°%Δ][A-Za-z_0-9µμΩÅ°%]*|\d+\.?\d*(?:[eE][+-]?\d+)?|\s+|.", re.S)

CANARIES = [
    "setattr(__import__('builtins'), 'C20_CANARY', 1)",
    "exec(\"import builtins; builtins.C20_CANARY = 1\")",
    "eval(\"setattr(__import__('builtins'), 'C20_CANARY', 1)\")",
    "__import__('builtins').__dict__.__setitem__('C20_CANARY', 1)",
    "__import__('os').system('touch %s')" % CANARY_FILE,
    "open('%s', 'w')" % CANARY_FILE,
    "f\"{setattr(__import__('builtins'), 'C20_CANARY', 1)}\"",
    "(lambda: setattr(__import__('builtins'), 'C20_CANARY', 1))()",
    "[setattr(__import__('builtins'), 'C20_CANARY', 1) for _ in (1,)]",
    "__builtins__['setattr'](__builtins__['__import__']('builtins'), 'C20_CANARY', 1)",
    "__builtins__.setattr(__builtins__.__import__('builtins'), 'C20_CANARY', 1)",
    "().__class__.__base__.__subclasses__()",
    "globals().__setitem__('sqrt', 1)",
    "compile('1', 'x', 'eval')",
    "getattr(m, '__class__')",
    "vars()",
    "sqrt.__globals__['__builtins__']['setattr'](sqrt.__globals__['__builtins__']['__import__']('builtins'), 'C20_CANARY', 1)",
    "Symbol.__init_subclass__",
    "print('C20')",
    "breakpoint()",
    "input()",
    "exit()",
    "quit()",
    "help()",
]
JUNK = ["^", "***", "+", "-", ",", ".", ":", ";", "=", "==", "!=", "<", ">", "<=", "[", "]", "{", "}", "!", "@", "#",
        "$", "~", "|", "&", "\\", "'", '"', "`", "?", "//", "<<", ">>", "->", ":=", "...", "%", "°", "**", "*", "/",
        "(", ")", "lambda", "if", "else", "for", "in", "import", "None", "True", "False", "not", "and", "or", "is",
        "__class__", "__import__", "Symbol", "Integer", "Float", "Rational", "sqrt", "sin", "exp", "log", "Abs",
        "oo", "nan", "zoo", "pi", "I", "E", "inf", "1j", "0x1f", "1_0", "1e5", "1e400", "1e-400", ".5", "5.", "0",
        "00", "-0", "²", "½", "٣", "２", "ｍ", "Δ", "µ", "μ", "Ω", "Å", "\n", "\t", "\r", "\x00", "\x0c", "\\\n",
        " ", "​", " ", "﻿", "́", "‮", "dimensionless", "(dimensionless)", "1", "2", "m", "s"]
BAD_EXPS = ["s", "(2*s)", "m", "(s/2)", "(-s)", "(s**2)", "(2.0*s)", "(10**10)", "10**10", "(1/0)", "(0/0)", "1e400",
            "(2**0.5)", "(-1)**0.5", "sqrt(2)", "sqrt(s)", "½", "²", "True", "None", "(m/m)", "(s*0)", "(1/3)",
            "0.333", "-1e3", "(1e-9)", "1j", "(1,2)", "[2]", "'2'", "(-2)**(1/3)", "(2)(3)", "-", "", "**2", "0",
            "(10**4)", "1e5", "(3-1)", "(1+1)", "(4//2)", "(1<<1)", "dimensionless", "rad", "(kg/g)"]
WRAPS = ["sin(%s)", "exp(%s)", "log(%s)", "Symbol(%s)", "Integer(%s)", "Float(%s)", "Rational(%s)", "sqrt(%s, %s)",
         "(%s, m)[1]", "(m, %s)[0]", "[%s]", "{%s}", "lambda: %s", "%s if %s else %s", "%s; %s", "%s == %s", "%s < %s",
         "%s.real", "%s.__class__", "f'{%s}'", "'%s'", "\"%s\"", "(%s)(%s)", "%s[0]", "-%s", "+%s", "~%s", "not %s",
         "%s + %s", "%s - %s", "%s + s", "%s // %s", "%s @ %s", "%s # s", "sqrt(%s)", "sqrt(sqrt(%s))", "(%s)", "((%s))",
         "(%s", "%s)", "(%s))", "1/(%s)", "1/%s", "%s**2", "(%s)**0.5", "(%s)**s", "2**(%s)", "(%s)**(%s)", "%s*", "*%s",
         "%s/", "/%s", "%s**", "**%s", "%s^2", "%s***2", "%s %s", "2%s", "%s2", "Symbol('%s')", "Symbol('')*%s",
         "%s*Symbol('')", "Integer(2)*%s", "Float(2)*%s", "Rational(1,2)*%s", "Float('nan')*%s", "Float('inf')*%s",
         "Rational(1,0)*%s", "(-2)**(1/3)*%s", "0*%s", "%s/0", "%s**(1/0)", "1e400*%s", "-1e400*%s", "%s\n", "\n%s",
         " %s", "%s\x00", "%s\\", "(..., %s)[1]", "('a', %s)[1]", "(f'', %s)[1]", "(1<2, %s)[1]", "{m: %s}[m]"]
LOOKALIKE = {"m": "ｍ", "2": "２", "u": "µ", "µ": "μ", "μ": "u", "s": "ѕ", "K": "K", "A": "Å", "a": "а", "1": "١",
             "-": "−", "*": "×", "/": "÷", " ": " "}


def mutate(rng, s):
    """1-3 token-level mutations of the string s"""
    for _ in range(rng.choice([1, 1, 1, 2, 2, 3])):
        toks = TOK_RE.findall(s)
        if not toks:
            toks = [""]
        op = rng.randrange(17)
        i = rng.randrange(len(toks))
        if op == 0:
            del toks[i]
        elif op == 1:
            toks.insert(i, toks[i])
        elif op == 2 and len(toks) > 1:
            j = min(i + 1, len(toks) - 1)
            toks[i], toks[j] = toks[j], toks[i]
        elif op == 3:
            toks.insert(i, rng.choice(JUNK))
        elif op == 4:
            toks[i] = rng.choice(JUNK)
        elif op == 5:
            idx = [k for k, t in enumerate(toks) if t == "**" and k + 1 < len(toks)]
            if idx:
                k = rng.choice(idx)
                toks[k + 1] = rng.choice(BAD_EXPS)
            else:
                toks.append("**" + rng.choice(BAD_EXPS))
        elif op == 6:
            idx = [k for k, t in enumerate(toks) if t == "**" and k > 0]
            if idx:
                toks[rng.choice(idx) - 1] = rng.choice(["2", "10", "(2*m)", "0", "-1", "1e3", "s", "(m+s)"])
            else:
                toks.insert(0, "2**")
        elif op == 7:
            toks.insert(i, rng.choice("()"))
        elif op == 8:
            toks.append(rng.choice(["*", "/", "**", "^", "***", "+", "-", "(", ".", ","]))
        elif op == 9:
            toks = [("^" if t == "**" else t) if rng.random() < 0.7 else ("***" if t == "**" else t) for t in toks]
        elif op == 10:
            w = rng.choice(WRAPS)
            s2 = "".join(toks)
            toks = [w.replace("%s", s2) if rng.random() < 0.7 else w.replace("%s", s2, 1).replace("%s", "s")]
        elif op == 11:
            toks[i] = rng.choice(CANARIES)
        elif op == 12:
            t = toks[i]
            if t and t[0].isalpha():
                toks[i] = rng.choice([t.upper(), t.lower(), t.title(), t[:-1], t[1:], t + t, t + "s", t[::-1],
                                      "_" + t, t + "_", t + "0"])
            else:
                toks[i] = "".join(LOOKALIKE.get(c, c) for c in t)
        elif op == 13:
            toks[i] = "".join(LOOKALIKE.get(c, c) if rng.random() < 0.5 else c for c in toks[i])
        elif op == 14:
            toks.insert(i, rng.choice([" ", "  ", "\t", "\n", "\r\n", "\\\n", "\x0c", " ", " ", "\x00"]))
        elif op == 15:
            k = rng.choice([2, 3, 5, 20, 60])
            toks = [rng.choice(["*", "/", "**", " ", ""]).join(["".join(toks)] * k)]
        else:
            toks = toks[:i]
        s = "".join(toks)
    return s


ALPH_UNIT = list("mskgKAcdhnuµμpfaMGTPEZYΩÅ°%Δ_") + list("0123456789") + list("*/().- +eE") + ["**", "**", "sqrt(", "1/"]
ALPH_ASCII = [chr(c) for c in range(32, 127)]
ALPH_UNI = ([chr(c) for c in range(0x370, 0x400)] + [chr(c) for c in range(0x2070, 0x20a0)] +
            [chr(c) for c in range(0xff10, 0xff5b)] + [chr(c) for c in range(0x300, 0x310)] +
            list("°µΩÅΔ℃℉Ω㎏㎞㎡µ·×÷√∞≈≠≤½¼²³¹⁻ ​‍‮﻿𐏿\U0001f600\x00\x01\x7f\x85\n\r\t\x0b\x0c") +
            [chr(c) for c in range(0x4e00, 0x4e10)] + [chr(c) for c in range(0x660, 0x66a)])


def bytes_fuzz(rng):
    mode = rng.randrange(5)
    n = rng.choice([0, 1, 1, 2, 3, 4, 5, 6, 8, 10, 14, 20, 30, 40])
    if mode == 0:
        return "".join(rng.choice(ALPH_UNIT) for _ in range(n))
    if mode == 1:
        return "".join(rng.choice(ALPH_ASCII) for _ in range(n))
    if mode == 2:
        return "".join(rng.choice(ALPH_UNI) for _ in range(n))
    if mode == 3:
        return "".join(rng.choice(rng.choice([ALPH_UNIT, ALPH_UNIT, ALPH_ASCII, ALPH_UNI])) for _ in range(n))
    # a valid name with some characters replaced
    s = rng.choice(SYMS) if rng.random() < 0.5 else rng.choice(PREFIXES) + rng.choice(PREFIXABLE)
    cs = list(s + rng.choice(["", "**2", "/s", "*kg"]))
    for _ in range(rng.choice([1, 1, 2])):
        if cs:
            cs[rng.randrange(len(cs))] = rng.choice(rng.choice([ALPH_ASCII, ALPH_UNI, ALPH_UNIT]))
    return "".join(cs)


# ------------------------------------------------------------------------------------------
# vocabulary oracle (independent of unyt's parser): numbers, names, * / ** ( ), unary sign, sqrt( )
# ------------------------------------------------------------------------------------------
_ARITH = {"+", "-", "//", "@"}
_BIT = {"<<", ">>", "&", "|", "^", "~"}
_CMP = {"<", ">", "<=", ">=", "==", "!=", "<>"}
_BRK = {"[", "]", "{", "}", ":"}
_CALLS_REPORTED = {"Symbol", "Integer", "Float", "Rational"}
_WS = {tokenize.NEWLINE, tokenize.NL, tokenize.ENDMARKER, tokenize.INDENT, tokenize.DEDENT}
_FSTR = getattr(tokenize, "FSTRING_START", -99)


def vocab_class(s):
    """None if every token of s is in the unit-string vocabulary, else a class name for the first
    token that is not"""
    s = s.replace("%", "percent").replace("°", "deg").strip()
    try:
        toks = list(tokenize.generate_tokens(io.StringIO(s).readline))
    except Exception:
        return "untokenizable"
    prev = None
    sig = [t for t in toks if t.type not in _WS]
    for k, t in enumerate(sig):
        nxt = sig[k + 1] if k + 1 < len(sig) else None
        if t.type == tokenize.NAME:
            if nxt is not None and nxt.type == tokenize.OP and nxt.string == "(" and t.string != "sqrt":
                return "call:" + (t.string if t.string in _CALLS_REPORTED else "other:" + t.string[:20])
        elif t.type == tokenize.NUMBER:
            if t.string[-1] in "jJ":
                return "complex-literal"
        elif t.type == tokenize.OP:
            o = t.string.strip()
            if o == "":
                continue
            if o in ("*", "/", "**", "(", ")"):
                pass
            elif o in ("+", "-") and (prev is None or (prev.type == tokenize.OP and prev.string in
                                                      ("*", "/", "**", "(", "+", "-"))):
                pass    # sign
            elif o in _ARITH:
                return "arithmetic"
            elif o in _BIT:
                return "bitwise"
            elif o in _CMP:
                return "comparison"
            elif o == ",":
                return "comma"
            elif o in _BRK:
                return "bracket"
            else:
                return "op:" + o
        elif t.type == tokenize.STRING:
            return "string-literal"
        elif t.type == _FSTR:
            return "fstring"
        elif t.type == tokenize.COMMENT:
            return "comment"
        else:
            return "token:" + tokenize.tok_name.get(t.type, str(t.type))
        prev = t
    return None


# ------------------------------------------------------------------------------------------
# checks (run in the workers); every check returns a list of findings (key, what, replay-spec)
# ------------------------------------------------------------------------------------------
def innermost_unyt_frame(e):
    tb = traceback.extract_tb(e.__traceback__)
    fr = [f for f in tb if os.path.abspath(f.filename).startswith(UNYT_DIR)]
    return fr[-1].name if fr else "outside-unyt"


def canary_hit():
    hit = False
    if "C20_CANARY" in builtins.__dict__:
        del builtins.__dict__["C20_CANARY"]
        hit = True
    if os.path.exists(CANARY_FILE):
        try:
            os.remove(CANARY_FILE)
        except OSError:
            pass
        hit = True
    return hit


def same_value(a, b, rtol=1e-12):
    if a == b or (math.isnan(a) and math.isnan(b)):
        return True
    if math.isnan(a) or math.isnan(b) or math.isinf(a) or math.isinf(b):
        return False
    return abs(a - b) <= rtol * max(abs(a), abs(b))


SPECIAL_OK = (Symbol, Integer, Rational, Float)


def sstr(x, n=60):
    try:
        return str(x)[:n]
    except Exception as e:
        return "<unprintable: %s>" % type(e).__name__


def micro_only(e1, e2):
    """the two expressions differ only in which of the three micro prefixes (u, U+00B5, U+03BC) they print"""
    n = lambda e: str(e).replace("µ", "u").replace("μ", "u")
    return str(e1) != str(e2) and n(e1) == n(e2)


def rt_check(u, which):
    """print/parse check of one unit: None, or (class, detail)"""
    r = _rt_check(u, which)
    if r is not None and not r[0].startswith("print-raises"):
        try:
            exotic = sorted({type(a).__name__ for a in u.expr.atoms() if not isinstance(a, SPECIAL_OK)})
        except Exception:
            exotic = []
        if exotic:
            # the unit itself is outside Mul/Pow/Symbol/rational-number (nan, I, irrational exponent ...): one family
            return ("exotic-expression", "[%s] %s: %s" % ("+".join(exotic), r[0], r[1]))
    return r


def _rt_check(u, which):
    f = str if which == "str" else repr
    try:
        s = f(u)
    except Exception as e:
        return ("print-raises:%s" % type(e).__name__, repr(e)[:120])
    try:
        u2 = Unit(s, registry=u.registry)
    except UnitParseError as e:
        if "Δ" in s:
            cls = "delta-degree-sign"
        elif u.expr == 1 and "dimensionless" not in u.registry.lut:
            cls = "dimensionless-name-missing"
        else:
            cls = "other"
        return ("reparse-fails:" + cls, "%s(u) = %r -> %s" % (which, s[:80], str(e)[-120:]))
    except Exception as e:
        return ("reparse-raises:%s" % type(e).__name__, "%s(u) = %r -> %r" % (which, s[:80], e))
    if u2.registry is not u.registry and u2.registry.lut is not u.registry.lut:
        return ("registry", "%r re-read into another registry" % s[:80])
    if not (u2.dimensions == u.dimensions):
        return ("dimensions", "%r: %s vs %s" % (s[:80], sstr(u2.dimensions), sstr(u.dimensions)))
    if u2.base_offset != u.base_offset:
        if (u.base_offset == 0) != (u2.base_offset == 0):
            # a bare symbol carries its offset, a product/coefficient expression is read without one (or vice versa)
            return ("offset-lost-in-product", "%r: offset %r, re-read %r" % (s[:80], u.base_offset, u2.base_offset))
        return ("offset", "%r: offset %r, re-read %r" % (s[:80], u.base_offset, u2.base_offset))
    if not same_value(float(u2.base_value), float(u.base_value)):
        if any(v == 0 or not math.isfinite(v) or not (1e-150 < abs(v) < 1e150) for v in (u.base_value, u2.base_value)):
            # one of the two computations left the normal float range in an intermediate product / square
            return ("scale:float-range", "%r: base_value %r, re-read %r" % (s[:80], u.base_value, u2.base_value))
        if same_value(float(u2.base_value), -float(u.base_value)):
            return ("scale:sign", "%r: base_value %r, re-read %r" % (s[:80], u.base_value, u2.base_value))
        return ("scale", "%r: base_value %r, re-read %r" % (s[:80], u.base_value, u2.base_value))
    try:
        coeff = u.expr.as_coeff_Mul()[0]
    except Exception:
        coeff = None
    if coeff == 1:
        if not (u2.expr == u.expr):
            if u.expr == 1:
                cls = "expr:dimensionless-one"
            elif any(not a.is_positive for a in u.expr.atoms(Symbol)):
                cls = "expr:non-positive-symbol"
            elif micro_only(u.expr, u2.expr):
                cls = "expr:micro-sign"
            else:
                cls = "expr"
            return (cls, "%r: expr %s re-read as %s" % (s[:80], sstr(u.expr), sstr(u2.expr)))
        if hash(u2) != hash(u):
            return ("hash", "%r: hash differs" % s[:80])
    return None


def check_string(s, regname, origin):
    """totality + vocabulary + canary + print/parse of the result.  returns (status, findings)"""
    out = []
    try:
        u = mk(s, regname)
        st = "ok"
    except UnitParseError:
        u = None
        st = "upe"
    except MemoryError as e:
        u = None
        st = "exc"
        out.append(("C20[total:resource-exhaustion]", "Unit(%r) raised MemoryError outside the parser" % s[:200],
                    ("total", s, regname)))
    except Exception as e:
        u = None
        st = "exc"
        site = innermost_unyt_frame(e)
        out.append(("C20[total:escapes@%s]" % site,
                    "Unit(%r) raised %s: %s (innermost unyt frame %s) instead of UnitParseError" % (
                        s[:200], type(e).__name__, str(e)[:100], site), ("total", s, regname)))
    if canary_hit():
        out.append(("C20[canary:executed]", "parsing %r executed code outside the unit vocabulary" % s[:200],
                    ("canary", s, regname)))
    if u is not None:
        vc = vocab_class(s)
        if vc is not None:
            out.append(("C20[vocab:accepted:%s]" % vc,
                        "Unit(%r) succeeded (= %r) although the string uses a construct outside the unit "
                        "vocabulary (%s)" % (s[:200], sstr(u.expr), vc), ("vocab", s, regname)))
        for which in ("str", "repr"):
            r = rt_check(u, which)
            if r is not None:
                out.append(("C20[roundtrip:%s]" % r[0], "u = Unit(%r): %s" % (s[:200], r[1]),
                            ("rt-string", s, regname, which)))
        if isinstance(s, str):
            try:
                ub = mk(s.encode("utf-8"), regname)
                if not (ub.expr == u.expr and same_value(ub.base_value, u.base_value)):
                    out.append(("C20[bytes:differs]", "Unit(bytes) differs from Unit(str) for %r" % s[:100], None))
            except UnicodeEncodeError:
                pass
            except Exception as e:
                out.append(("C20[bytes:raises]", "Unit(%r.encode()) raised %r" % (s[:100], e), None))
    return st, out


def check_grammar(ast, s1, s2, regname):
    out = []
    us = []
    for s in (s1, s2):
        st, f = check_string(s, regname, "grammar")
        out += f
        if st == "upe":
            key = ("C20[names:rejected:prefix-word+degree-sign]" if re.search(r"[A-Za-z]{3,}°", s)
                   else "C20[grammar:rejected]")
            # an expression whose value is not a finite real number (a fractional power of the
            # negatively scaled `lat`) denotes no unit: refusing it with UnitParseError is what
            # the statement asks for ("either succeeds or raises UnitParseError")
            try:
                _val, _dims = expected(ast, regname)
                denotes_a_unit = isinstance(_val, (int, float)) and math.isfinite(_val) and _val != 0
            except Exception:
                denotes_a_unit = False
            if denotes_a_unit or "names:rejected" in key:
                out.append((key, "valid unit expression %r (registry %s) was rejected" % (s, regname), ("accept", s, regname)))
        us.append(mk(s, regname) if st == "ok" else None)
    u1, u2 = us
    if u1 is not None:
        try:
            val, dims = expected(ast, regname)
            if math.isfinite(val) and val != 0 and math.isfinite(u1.base_value):
                if not same_value(u1.base_value, val, 1e-9):
                    out.append(("C20[grammar:value]", "Unit(%r).base_value = %r, tables give %r" % (s1, u1.base_value, val),
                                ("value", s1, regname, val)))
            if not (u1.dimensions == dims):
                out.append(("C20[grammar:dimensions]", "Unit(%r).dimensions = %s, tables give %s" % (s1, u1.dimensions, dims),
                            ("dims", s1, regname, str(dims))))
        except Exception as e:
            out.append(("DRIVER", "expected() failed for %r: %r" % (s1, e), None))
    if u1 is not None and u2 is not None:
        if not (u1 == u2 and u1.dimensions == u2.dimensions and u1.base_offset == u2.base_offset
                and same_value(u1.base_value, u2.base_value)):
            out.append(("C20[spelling:unequal]", "%r and %r spell the same expression but give %r (%r) and %r (%r)" % (
                s1, s2, u1, u1.base_value, u2, u2.base_value), ("spell-eq", s1, s2, regname)))
        elif not (u1.expr == u2.expr and hash(u1) == hash(u2)):
            cls = "micro-sign" if micro_only(u1.expr, u2.expr) else "other"
            out.append(("C20[spelling:expr:%s]" % cls, "%r and %r spell the same expression but give different "
                        "expressions %r and %r" % (s1, s2, u1.expr, u2.expr), ("spell-expr", s1, s2, regname)))
    return out


# ---- unit arithmetic --------------------------------------------------------------------
POWS = [2, 3, -1, -2, "Fraction(1, 2)", "Fraction(3, 2)", "Fraction(-1, 3)", 0.5, 1.5, -0.25, "Fraction(2, 3)", 1, 0,
        0.1, "(1/3)", "Fraction(5, 7)", 4, -0.5, 2.0, "math.pi"]
QCOEF = [2.5, 0.1, 3, 1e-3, 12.0, 1 / 3, 1e10, 7, 0.5]


def gen_recipe(rng, regname):
    """a list of python statements building a unit `u` by unit arithmetic"""
    extra = REG_ATOMS.get(regname, [])

    def atom():
        r = rng.random()
        if extra and (r < 0.3 or regname == "bare"):
            n = rng.choice(extra)
        elif r < 0.6:
            n = rng.choice(PREFIXES) + rng.choice(PREFIXABLE)
        else:
            n = rng.choice(SYMS)
        return "Unit(%r, registry=reg)" % n
    steps = ["u = %s" % atom()]
    for _ in range(rng.choice([0, 1, 1, 2, 2, 3, 4, 5])):
        op = rng.randrange(12)
        if op <= 2:
            steps.append("u = u * %s" % atom())
        elif op <= 4:
            steps.append("u = u / %s" % atom())
        elif op <= 6:
            steps.append("u = u ** %s" % rng.choice(POWS))
        elif op == 7:
            steps.append("u = u.simplify()")
        elif op == 8:
            steps.append("u = Unit(%r * u, registry=reg)" % rng.choice(QCOEF))
        elif op == 9:
            steps.append("u = u.%s()" % rng.choice(["get_base_equivalent", "get_cgs_equivalent", "get_mks_equivalent"]))
        elif op == 10:
            steps.append("u = (u * %s / %s).simplify()" % (atom(), atom()))
        else:
            steps.append("u = %s" % rng.choice(["u.copy()", "(1 / u).units", "Unit(u.expr, registry=reg)",
                                                "(u * u) ** 0.5", "u * Unit(registry=reg)"]))
    return steps


def run_recipe(steps, regname):
    ns = {"Unit": Unit, "Fraction": Fraction, "math": math, "reg": REGS[regname] or unyt.unit_registry.default_unit_registry}
    done = []
    for st in steps:
        try:
            exec(st, ns)
            done.append(st)
        except Exception:      # an operation that unit arithmetic refuses: skip it
            if "u" not in ns:
                return None, done
    return ns.get("u"), done


def check_arith(steps, regname):
    u, done = run_recipe(steps, regname)
    if u is None or not isinstance(u, Unit):
        return "skip", []
    out = []
    for which in ("str", "repr"):
        r = rt_check(u, which)
        if r is not None:
            out.append(("C20[roundtrip:%s]" % r[0], "u from unit arithmetic (%s): %s" % ("; ".join(done), r[1]),
                        ("rt-recipe", done, regname, which)))
    return "ok", out
