"""C06 bounded stand-in: every NumPy array function (numpy, numpy.linalg, numpy.fft; enumerated at
run time as the public callables with `_implementation`) and the ndarray methods, called on unyt
arrays through a catalogue of call templates (positional / keyword / out= forms, every optional
argument a unyt handler forwards), either raises or produces exactly what NumPy produces on the
stripped data: same structure, shape, dtype, values (nan-aware exact equality), and the same
contents of out= buffers and of arrays written in place."""
import os
import random
import sys

sys.path.insert(0, os.path.dirname(os.path.abspath(__file__)))
from common import Run, replay_script  # noqa: E402

import lib_c06_catalogue as cat  # noqa: E402
from lib_c06_harness import H_run06, make_slotdefs, replay_source  # noqa: E402

have, missing, handled_missing = cat.coverage()
nfun = len(cat.dispatching_functions())

R = Run("C06",
        "call templates of lib_c06_catalogue (expression over slots; variants over shapes 0-d/1-d/2-d/3-d/"
        "square/stacked/empty x float64/32/16, int64/32/8, complex128/64 x seeded data; out= as quantity, "
        "bare array and foreign-unit quantity) for %d catalogue functions (%d of the %d dispatching "
        "functions of numpy/numpy.linalg/numpy.fft + ndarray methods); each template is evaluated on "
        "quantities and on the stripped `.view(ndarray)` copies and compared (structure, shape, dtype, "
        "exact values, out= and in-place slots).  Non-trivial = the call succeeded on quantities (a raise "
        "is accepted and counted).  Dispatching functions without a template: %s"
        % (len(have), nfun - len(missing), nfun, ", ".join(missing) or "none"),
        "finite catalogue x 1 data draw (quick) / 6 data draws x 2 unit systems (thorough)")

DRAWS = 6 if R.thorough else 1
SYSTEMS = ["plain", "plain2"] if R.thorough else ["plain"]
seed = R.args.seed
seen = set()
raises = {}
counts = {"ok": 0, "raises": 0, "both-raise": 0, "bare-raises": 0}
bare_raises = []
driver_errors = []


def replay_for(sd, c, sysname, aspect):
    body = [
        "st, found = H_run06(SD, EXPR, %r, text=%r, garbage=%r)" % (sysname, c.text, c.garbage),
        "print(st)",
        "for a, m in found: print(a, '|', m)",
        "sys.exit(1 if st == 'ok' and any(a == %r or (%r.startswith('@') and a.endswith('-retyped')) for a, _ in found) else 0)" % (aspect, aspect),
    ]
    return replay_script(replay_source(body, sd, c.expr))


for c in cat.CASES:
    for sysname in SYSTEMS:
        for draw in range(DRAWS):
            rng = random.Random("%d|%s|%s|%s|%d" % (seed, c.fname, c.tid, c.variant, draw))
            try:
                sd = make_slotdefs(c, rng)
                st, found = H_run06(sd, c.expr, sysname, c.text, c.garbage)
            except Exception as e:  # driver problem, not a finding
                driver_errors.append("%s:%s[%s] %r" % (c.fname, c.tid, c.variant, e))
                continue
            counts[st] += 1
            ckey = "C06[%s:%s]" % (c.fname, c.tid)
            R.case(ckey + c.variant, nontrivial=(st == "ok"),
                   sample={"expr": c.expr, "slots": c.variant} if draw == 0 and c.tid == "axis" else None)
            if st == "raises":
                raises.setdefault(c.fname, set()).add(c.tid)
                continue
            if st == "bare-raises":
                bare_raises.append("%s:%s[%s] %s" % (c.fname, c.tid, c.variant, found[0][1]))
                continue
            if st != "ok":
                continue
            retyped = [m for a, m in found if a.endswith("-retyped")]
            if retyped:
                # one defect site (__array_ufunc__ re-types integer out= buffers to float in place)
                found = [(a, m) for a, m in found if a not in ("dtype", "itemsize") and not a.endswith("-retyped")]
                found.append(("@C06[out-buffer:integer-out-retyped-to-float]", retyped[0]))
            for aspect, msg in found:
                key = aspect[1:] if aspect.startswith("@") else "C06[%s:%s:%s]" % (c.fname, c.tid, aspect)
                if key in seen:
                    continue
                seen.add(key)
                R.fail(key, "%s with %s: %s" % (c.expr, c.variant, msg), replay_for(sd, c, sysname, aspect))

R.notes.append("outcomes: %r" % counts)
R.notes.append("functions/templates that raise on quantities (accepted): " +
               "; ".join("%s(%s)" % (f, ",".join(sorted(t))) for f, t in sorted(raises.items())))
if handled_missing:
    R.notes.append("unyt-handled functions WITHOUT a template: %s" % handled_missing)
if bare_raises:
    R.notes.append("templates illegal on bare data while the quantity call succeeded (%d): %s" % (len(bare_raises), bare_raises[:20]))
if driver_errors:
    R.notes.append("driver errors (%d): %s" % (len(driver_errors), driver_errors[:20]))
R.finish()
