"""Shared machinery for the C18 / C17 / C03 bounded drivers.

Part 1 (functions E_*) is self-contained -- it needs only `np` and `unyt` -- and its source is
embedded verbatim into replay scripts:

* operands are built from *specs* (plain dicts: dtype, view kind, values, unit string, class) as
  VIEWS of larger root buffers (offset slice, strided, reversed, transposed, 0-d element) so that
  a write outside the operand, or a retyped buffer, is visible in the bytes of the root buffer;
* E_nonmut runs a statement that is documented not to mutate and compares a snapshot (bytes of
  every root buffer, dtype, shape, strides, unit signature, name) of every operand;
* E_inplace runs an in-place statement; when it raises every operand (the target included) must
  hold the same numbers/unit/dtype as before; when it succeeds only the elements of the target
  may have changed and the target must hold exactly the numbers and unit of the corresponding
  copying statement evaluated on a second, independent build of the same specs.

Part 2: unit tables / exact rational conversion used by the C17 and C03 drivers."""
import inspect
from fractions import Fraction

import numpy as np
import unyt


# ============================================================================ embedded part
def E_layout(kind, shape):
    """-> (root buffer shape, function root buffer -> view of `shape`)"""
    shape = tuple(shape)
    if kind == "own":
        return shape, (lambda B: B)
    if shape == ():
        return (5,), (lambda B: B[3:4].reshape(()))
    n = shape[0]
    rest = shape[1:]
    if kind == "slice":      # offset, contiguous part of a longer buffer
        return (n + 5,) + rest, (lambda B: B[2:2 + n])
    if kind == "rev":        # negative stride along the first axis
        return (n + 3,) + rest, (lambda B: B[1:n + 1][::-1])
    if kind == "strided":    # every second element along the last axis
        m = shape[-1]
        return (n + 1,) + shape[1:-1] + (2 * m + 3,) if len(shape) > 1 else (2 * m + 3,), (
            (lambda B: B[1:, ..., 1:1 + 2 * m:2]) if len(shape) > 1 else (lambda B: B[1:1 + 2 * m:2]))
    if kind == "T":          # transpose of a padded buffer
        rs = shape[::-1]
        return (rs[0] + 2,) + rs[1:], (lambda B: B[1:-1].T)
    raise ValueError("unknown view kind %r" % (kind,))


_UC = {}
_CC = {}


def E_unit(s):
    """Unit for a unit string; parsed once per process and re-used while its signature is intact"""
    from unyt import Unit
    hit = _UC.get(s)
    if hit is not None and E_usig(hit[0]) == hit[1]:
        return hit[0]
    u = Unit(s)
    _UC[s] = (u, E_usig(u))
    return u


def E_mk(spec):
    """spec: dict(dt=dtype name, kind=view kind, vals=nested list, unit=unit string | None,
    cls='arr'|'qty'|'bare'|'py'|'unit', name=None) -> (object, root buffer or None)"""
    from unyt import Unit, unyt_array, unyt_quantity
    cls = spec.get("cls", "arr")
    if cls == "py":
        return spec["vals"], None
    if cls == "unit":
        return Unit(spec["unit"]), None
    vals = np.array(spec["vals"], dtype=spec["dt"])
    bshape, viewer = E_layout(spec.get("kind", "own"), vals.shape)
    size = 1
    for s in bshape:
        size *= s
    B = (np.arange(size) % 5 + 1).astype(spec["dt"]).reshape(bshape)
    v = viewer(B)
    v[...] = vals
    if cls == "bare":
        return v, B
    if cls == "qty" or (v.shape == () and cls != "arr0"):
        q = unyt_quantity(v, E_unit(spec["unit"]), name=spec.get("name"))
    else:
        q = unyt_array(v, E_unit(spec["unit"]), name=spec.get("name"))
    if v.size and not np.shares_memory(q, B):
        raise RuntimeError("operand is not a view of its root buffer")
    return q, B


def E_usig(u):
    return (u.expr, float(u.base_value), float(u.base_offset), u.dimensions, id(u.registry))


def E_snap(obj, B):
    from unyt import Unit, unyt_array
    if isinstance(obj, Unit):
        return {"unit": E_usig(obj), "atomic": obj.is_atomic}
    if not isinstance(obj, np.ndarray):
        return {"py": repr(obj)}
    d = {"dtype": obj.dtype.str, "shape": obj.shape, "strides": obj.strides, "cls": type(obj).__name__,
         "values": np.array(obj.view(np.ndarray))}
    if B is not None:
        d["bytes"] = B.tobytes()
    if isinstance(obj, unyt_array):
        d["units"] = E_usig(obj.units)
        d["name"] = obj.name
    return d


def E_diff(s0, s1, skip=()):
    out = []
    for k in s0:
        if k in skip or k == "values":
            continue
        if s0[k] != s1.get(k):
            out.append(k)
    if "values" in s0 and "values" not in skip:
        a, b = s0["values"], s1["values"]
        if a.shape != b.shape or not np.array_equal(a.astype(b.dtype, copy=False) if a.dtype != b.dtype else a, b,
                                                     equal_nan=a.dtype.kind in "fc" or b.dtype.kind in "fc"):
            out.append("values")
    return out


def E_pos(a, B):
    """flat element indices (units of B.itemsize) of the elements of view `a` inside root buffer B"""
    off = a.__array_interface__["data"][0] - B.__array_interface__["data"][0]
    idx = np.zeros(a.shape, dtype=np.int64) + off
    for ax, (n, st) in enumerate(zip(a.shape, a.strides)):
        sh = [1] * a.ndim
        sh[ax] = n
        idx = idx + (np.arange(n) * st).reshape(sh)
    return np.unique(idx // B.itemsize)


def E_build(specs, pre):
    env = {"np": np, "unyt": unyt, "nan": float("nan"), "inf": float("inf")}
    roots = {}
    for name, spec in specs.items():
        obj, B = E_mk(spec)
        env[name] = obj
        roots[name] = B
    if pre:
        exec(pre, env)
    return env, roots


def E_run(code, env):
    """-> ('ok', None) | ('exc', exception) | ('base', BaseException that is no Exception)"""
    try:
        cc = _CC.get(code)
        if cc is None:
            cc = _CC[code] = compile(code, "<case>", "exec")
        with np.errstate(all="ignore"):
            exec(cc, env)
        return "ok", None
    except Exception as e:  # noqa
        return "exc", e
    except BaseException as e:  # noqa  (SystemExit, KeyboardInterrupt, GeneratorExit ...)
        return "base", e


def E_watch(env, roots, names):
    return {n: E_snap(env[n], roots.get(n)) for n in names}


def E_nonmut(specs, code, pre="", allow_expr=(), extra=()):
    """statement `code` must not change any operand.  -> (status, exception, [(operand, aspect)])"""
    try:
        env, roots = E_build(specs, pre)
    except Exception as e:  # noqa
        return "skip", e, []
    names = list(specs) + list(extra)
    s0 = E_watch(env, roots, names)
    st, exc = E_run(code, env)
    s1 = E_watch(env, roots, names)
    found = []
    if st == "base":
        found.append(("-", "exception-not-Exception"))
    for n in names:
        for aspect in E_diff(s0[n], s1[n]):
            if aspect in ("unit", "units") and n in allow_expr:
                # documented exception (Unit.simplify): the expression may be rewritten, the unit may not change
                if s0[n][aspect][1:] == s1[n][aspect][1:]:
                    continue
            found.append((n, aspect))
    return st, exc, found


def E_bare(x):
    return np.asarray(x.view(np.ndarray) if isinstance(x, np.ndarray) else x)


def E_cmp_values(t, r):
    """target buffer t (bare) vs expected r (bare): None if exactly the same numbers, else aspect"""
    if t.shape != r.shape:
        try:
            r = np.broadcast_to(r, t.shape)
        except ValueError:
            return "shape"
    cast = r.dtype != t.dtype
    with np.errstate(all="ignore"):
        if cast:
            try:
                r = r.astype(t.dtype)
            except Exception:  # noqa
                return "dtype"
        if np.array_equal(t, r, equal_nan=t.dtype.kind in "fc"):
            return None
        if t.dtype.kind in "fc":
            eps = float(np.finfo(t.dtype).eps)
            tt = t.astype(complex if t.dtype.kind == "c" else "longdouble")
            rr = r.astype(tt.dtype)
            fin = np.isfinite(tt) & np.isfinite(rr)
            if np.array_equal(np.isnan(tt), np.isnan(rr)) and np.array_equal(tt[~fin & ~np.isnan(tt)], rr[~fin & ~np.isnan(rr)]):
                if not fin.any():
                    return None
                scale = np.maximum(np.abs(tt[fin]), np.abs(rr[fin]))
                err = np.abs(tt[fin] - rr[fin])
                if np.all(err <= 4 * eps * scale):
                    # computed in another type and cast (double rounding) vs computed in the target's type
                    return "rounding-cast" if cast else "rounding"
    return "values"


def E_inplace(specs, code, targets, copy_code, pre="", copy_pre=None, copy_specs=None):
    """in-place statement `code`; targets: list of (name of the target in the environment,
    expression over the copy environment giving the expected content | None, unit mode: 'copy' =
    the unit of that expression, 'keep' = the target's unit before the call, None = unchecked);
    `copy_code` is the corresponding copying statement, run on an independent build of the same
    specs (or of copy_specs).  -> (status, exception, [(operand, aspect)])"""
    from unyt import unyt_array
    try:
        env, roots = E_build(specs, pre)
    except Exception as e:  # noqa
        return "skip", e, []
    names = list(specs)
    tnames = [t[0] for t in targets]
    for t in tnames:
        if t not in names:
            names.append(t)
            tb = E_bare(env[t])
            roots[t] = next((B for B in roots.values() if B is not None and np.shares_memory(B, tb)), None)
    s0 = E_watch(env, roots, names)
    tpos = {}
    for t in tnames:
        B = roots.get(t)
        tb = E_bare(env[t])
        if B is not None and tb.itemsize == B.itemsize:
            tpos.setdefault(id(B), []).append(E_pos(tb, B))
    st, exc = E_run(code, env)
    s1 = E_watch(env, roots, names)
    found = []
    if st == "base":
        found.append(("-", "exception-not-Exception"))
    if st != "ok":
        for n in names:
            for aspect in E_diff(s0[n], s1[n]):
                found.append((n, "after-raise-" + aspect))
        return st, exc, found
    # success: the corresponding copying call on independent copies
    try:
        env2, _ = E_build(specs if copy_specs is None else copy_specs, pre if copy_pre is None else copy_pre)
    except Exception as e:  # noqa
        return "skip", e, []
    st2, exc2 = E_run(copy_code, env2)
    if st2 != "ok":
        found.append((tnames[0], "inplace-succeeds-copy-raises"))
        return st, exc2, found
    # 1. everything that is not an element of a target is unchanged
    for n in names:
        B = roots.get(n)
        if n in tnames:
            continue
        skip = ()
        if B is not None and id(B) in tpos:
            skip = ("bytes", "values")       # shares a root buffer with a target: compared below, element-wise
        for aspect in E_diff(s0[n], s1[n], skip=skip):
            found.append((n, "nontarget-" + aspect))
    seen = set()
    for n in names:
        B = roots.get(n)
        if B is None or id(B) not in tpos or id(B) in seen:
            continue
        seen.add(id(B))
        item = B.itemsize
        b0 = np.frombuffer(s0[n]["bytes"], dtype=np.uint8).reshape(-1, item)
        b1 = np.frombuffer(B.tobytes(), dtype=np.uint8).reshape(-1, item)
        keep = np.ones(len(b0), dtype=bool)
        for p in tpos[id(B)]:
            keep[p] = False
        if not np.array_equal(b0[keep], b1[keep]):
            found.append((n, "wrote-outside-target"))
    # 2. the target holds the numbers and the unit of the copying call
    for t, rexpr, umode in targets:
        if rexpr is None:
            continue
        try:
            r = eval(rexpr, env2)
        except Exception as e:  # noqa
            found.append((t, "copy-result-unavailable"))
            continue
        tgt = env[t]
        if umode == "physical":
            # the target may carry another (commensurable) unit than the copying call: compare the quantities
            if not (isinstance(tgt, unyt_array) and isinstance(r, unyt_array)) or tgt.units.dimensions != r.units.dimensions:
                found.append((t, "target-units"))
                continue
            if not (tgt.units == r.units):
                r = r.to(tgt.units)
                aspect = E_cmp_values(E_bare(tgt), E_bare(r))
                aspect = None if aspect in ("rounding", "rounding-cast") else aspect
            else:
                aspect = E_cmp_values(E_bare(tgt), E_bare(r))
        else:
            aspect = E_cmp_values(E_bare(tgt), E_bare(r))
        if aspect:
            found.append((t, "target-" + aspect))
        k0 = np.dtype(s0[t]["dtype"]).kind
        k1 = E_bare(tgt).dtype.kind
        if k0 != k1 and not (k0 in "iu" and k1 == "f"):
            found.append((t, "target-dtype-kind"))
        if isinstance(tgt, unyt_array) and umode == "keep":
            if E_usig(tgt.units) != s0[t]["units"]:
                found.append((t, "target-units"))
        elif isinstance(tgt, unyt_array) and umode == "copy":
            ru = r.units if isinstance(r, unyt_array) else unyt.Unit()
            tu = tgt.units
            if not (tu == ru) or tu.dimensions != ru.dimensions:
                found.append((t, "target-units"))
            elif tu.expr != ru.expr:
                found.append((t, "target-unit-spelling"))
    return st, exc, found


E_FUNCS = [E_layout, E_unit, E_mk, E_usig, E_snap, E_diff, E_pos, E_build, E_run, E_watch, E_nonmut, E_bare,
           E_cmp_values, E_inplace]


_SRC = []


def embedded_source():
    if not _SRC:
        _SRC.append("_UC = {}\n_CC = {}\n" + "\n".join(inspect.getsource(f) for f in E_FUNCS))
    return _SRC[0]


def replay_nonmut(specs, code, pre, allow_expr, operand, aspect):
    return (embedded_source() +
            "\nst, exc, found = E_nonmut(%r, %r, pre=%r, allow_expr=%r)\n" % (specs, code, pre, tuple(allow_expr)) +
            "print(st, repr(exc)[:200]); print(found)\n"
            "sys.exit(1 if (%r, %r) in found else 0)\n" % (operand, aspect))


def replay_inplace(specs, code, targets, copy_code, pre, copy_pre, copy_specs, operand, aspect):
    return (embedded_source() +
            "\nst, exc, found = E_inplace(%r, %r, %r, %r, pre=%r, copy_pre=%r, copy_specs=%r)\n" % (
                specs, code, targets, copy_code, pre, copy_pre, copy_specs) +
            "print(st, repr(exc)[:200]); print(found)\n"
            "sys.exit(1 if (%r, %r) in found else 0)\n" % (operand, aspect))


# ============================================================================ data helpers
INT_DT = ["int8", "int16", "int32", "int64", "uint8", "uint16", "uint32", "uint64"]
FLT_DT = ["float16", "float32", "float64", "longdouble"]
CPX_DT = ["complex64", "complex128"]


def draw_values(rng, dt, shape, positive=False, small=False):
    """seeded, exactly representable, non-zero values (nested python lists) for dtype dt"""
    k = np.dtype(dt).kind
    n = 1
    for s in shape:
        n *= s
    if k == "u":
        pool = list(range(1, 7))
    elif k == "i":
        pool = list(range(1, 7)) if positive else [v for v in range(-6, 7) if v]
    else:
        pool = [v / 4.0 for v in range(1, 25)] if positive else [v / 4.0 for v in range(-24, 25) if v]
    vals = [rng.choice(pool) for _ in range(n)]
    if n <= len(pool):
        vals = rng.sample(pool, n)
    if k == "c":
        vals = [complex(v, rng.choice(pool)) for v in vals]
    a = np.array(vals, dtype=object).reshape(shape)
    return a.tolist()


def float_for(dt):
    """the float dtype unyt is required to produce for data of dtype dt (None: no such float)"""
    d = np.dtype(dt)
    if d.kind == "c":
        return d
    if d.kind == "f":
        return d
    if d.kind in "iu":
        if d.itemsize == 1:
            return np.dtype("float16")     # copying routes: at least 16 bits; in place: raises
        return np.dtype("f%d" % d.itemsize)
    return None


def exact_convert(x, ua, ub):
    """exact rational value of reading x (int/Fraction) in unit ua expressed in unit ub, from the
    table semantics SI = (x - offset_a) * scale_a ;  y = SI / scale_b + offset_b"""
    sa, sb = Fraction(float(ua.base_value)), Fraction(float(ub.base_value))
    oa, ob = Fraction(float(ua.base_offset)), Fraction(float(ub.base_offset))
    return (Fraction(x) - oa) * sa / sb + ob


def ulps(value, exact, dt):
    """|value - exact| in units of the spacing of dtype dt at `exact` (exact: Fraction)"""
    d = np.dtype(dt)
    fi = np.finfo(d)
    e = float(exact)
    if e == 0 or not np.isfinite(e):
        sp = float(fi.smallest_subnormal)
    else:
        sp = max(abs(e) * float(fi.eps) / 2, float(fi.smallest_subnormal))
    if not np.isfinite(value):
        return float("inf") if np.isfinite(e) and abs(e) <= float(fi.max) else 0.0
    return abs(float(Fraction(float(value)) - exact)) / sp
