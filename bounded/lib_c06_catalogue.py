"""Shared call catalogue for C06 (same numbers as NumPy) and C07 (unit covariance).

A template is a Python expression over named slots.  A slot is `"DIM:spec|spec|..."`:
DIM in L,T,M,A (quantity of that dimension), X (junk unit, for out buffers), - (bare ndarray);
spec = <dtype letter><shape code><flags> (see lib_c06_harness.SHAPES / DTYPES / gen) and the
`|`-separated alternatives are zipped over the slots into variants.  `out=O` in an expression
creates an out buffer shaped like the bare result, in three flavours (quantity of the first
slot's dimension, bare ndarray, quantity with an unrelated unit)."""
import os
import re
import sys

sys.path.insert(0, os.path.dirname(os.path.abspath(__file__)))
import numpy as np  # noqa: E402

from lib_c06_harness import *  # noqa: F401,F403,E402


class Case:
    __slots__ = ("fname", "tid", "expr", "slots", "variant", "keep", "text", "garbage", "tol", "nocov")

    def __repr__(self):
        return "Case(%s:%s %s %s)" % (self.fname, self.tid, self.expr, self.slots)


CASES = []
_OUT_RE = re.compile(r",\s*out=O\b|\bout=O\s*,\s*")


def T(fname, tids, keep=None, text=False, garbage=False, tol=None, nocov=(), **slots):
    """register templates for function `fname`.  tids: expr | {tid: expr | (expr, {slot overrides}
    [, keep])}.  keep: slot whose dimension the result must carry (C07).  nocov: True or tids
    whose result value is not covariant by nature (rounding, casts to integer, explicit subok=False, IO)."""
    if isinstance(tids, str):
        tids = {"pos": tids}
    for tid, val in tids.items():
        k = keep
        over = {}
        if isinstance(val, tuple):
            expr = val[0]
            over = val[1] if len(val) > 1 else {}
            if len(val) > 2:
                k = val[2]
        else:
            expr = val
        sl = dict(slots)
        sl.update(over)
        sl = {n: v for n, v in sl.items() if re.search(r"\b%s\b" % n, expr)}
        parsed = {}
        for n, v in sl.items():
            dim, _, specs = v.partition(":")
            parsed[n] = (dim, specs.split("|"))
        nvar = max([len(s) for _, s in parsed.values()] or [1])
        outs = [None]
        if re.search(r"\bO\b", expr) and "O" not in parsed:
            first = next((d for d, _ in parsed.values() if d not in "-X"), "L")
            outs = [(first, ""), ("-", "/obare"), ("X", "/ox")]
        for i in range(nvar):
            for o in outs:
                c = Case()
                c.fname, c.expr, c.keep, c.text, c.garbage, c.tol = fname, expr, k, text, garbage, tol
                c.tid = tid + (o[1] if o else "")
                c.nocov = nocov is True or tid in nocov
                c.slots = {n: (d, s[min(i, len(s) - 1)]) for n, (d, s) in parsed.items()}
                if o:
                    c.slots["O"] = (o[0], "@" + _OUT_RE.sub("", expr))
                c.variant = ",".join("%s=%s" % (n, s) for n, (_, s) in sorted(c.slots.items()) if not s.startswith("@"))
                CASES.append(c)


def dispatching_functions():
    """name -> object for every public function of numpy / numpy.linalg / numpy.fft that goes
    through __array_function__ (has `_implementation`), enumerated at run time"""
    res = {}
    for ns, mod in (("np", np), ("np.linalg", np.linalg), ("np.fft", np.fft)):
        for n in sorted(dir(mod)):
            if n.startswith("_"):
                continue
            try:
                o = getattr(mod, n)
            except Exception:
                continue
            if callable(o) and hasattr(o, "_implementation"):
                res[ns + "." + n] = o
    return res


def handled_names():
    from unyt._array_functions import _HANDLED_FUNCTIONS
    return sorted(k for k, v in dispatching_functions().items() if v in _HANDLED_FUNCTIONS)


# slot alternatives used all over the catalogue
ANY = "f1|f2|i2|c2|f0|fe|g2|k1"
D2 = "f2|i2|c2|g2"
D1 = "f1|i1|c1|g1"
R2 = "f2|i2|g2"         # real 2-d
R1 = "f1|i1|g1"

import lib_c06_cat1  # noqa: E402,F401
import lib_c06_cat2  # noqa: E402,F401
import lib_c06_cat3  # noqa: E402,F401
import lib_c06_cat4  # noqa: E402,F401


def coverage():
    """(functions with >= 1 template, dispatching functions without a template, handled w/o template)"""
    names = dispatching_functions()
    have = {c.fname for c in CASES}
    missing = sorted(n for n in names if n not in have)
    return sorted(have), missing, [n for n in handled_names() if n not in have]
