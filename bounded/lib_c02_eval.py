"""Independent evaluator for unit names and unit expressions (used by c02.py and c05.py).

Only the ATOM rows (scale, dimension, offset, prefixable flag of each table symbol, and the alias
lists) are read from the imported package.  SI prefixes, the reading of prefixed / alias names,
and the value of every compound expression are computed here with exact rational / 60-digit
decimal arithmetic; dimensions are exponent vectors of Fractions over the base dimensions."""
import decimal
import math
from decimal import Decimal
from fractions import Fraction

import sympy
from unyt import dimensions as D
from unyt._unit_lookup_table import (default_unit_symbol_lut as LUT,
                                     default_unit_name_alternatives as ALT)

decimal.getcontext().prec = 60

# SI prefixes, written independently of unyt.unit_prefixes
PREFIX = {  # spelling -> (power of ten, word)
    "Y": (24, "yotta"), "Z": (21, "zetta"), "E": (18, "exa"), "P": (15, "peta"), "T": (12, "tera"),
    "G": (9, "giga"), "M": (6, "mega"), "k": (3, "kilo"), "h": (2, "hecto"), "da": (1, "deca"),
    "d": (-1, "deci"), "c": (-2, "centi"), "m": (-3, "milli"),
    "µ": (-6, "micro"), "u": (-6, "micro"), "μ": (-6, "micro"),
    "n": (-9, "nano"), "p": (-12, "pico"), "f": (-15, "femto"), "a": (-18, "atto"),
    "z": (-21, "zepto"), "y": (-24, "yocto"),
}

BASEDIMS = [D.mass, D.length, D.time, D.temperature, D.angle, D.current_mks,
            D.luminous_intensity, D.logarithmic]
NB = len(BASEDIMS)
ZERO = tuple([Fraction(0)] * NB)


_DV_CACHE = {}
_BASEIDX = {b: i for i, b in enumerate(BASEDIMS)}


def dimvec(expr):
    """exponent vector (Fractions) of a sympy dimension expression over BASEDIMS"""
    try:
        return _DV_CACHE[expr]
    except (KeyError, TypeError):
        pass
    v = _dimvec(expr)
    try:
        if len(_DV_CACHE) < 200000:
            _DV_CACHE[expr] = v
    except TypeError:
        pass
    return v


def _dimvec(expr):
    expr = sympy.sympify(expr)
    if expr == 1:
        return ZERO
    # fast path: a flat product of powers of base dimensions
    try:
        v = [Fraction(0)] * NB
        for b, e in expr.as_powers_dict().items():
            v[_BASEIDX[b]] += Fraction(int(e.p), int(e.q))
        return tuple(v)
    except (KeyError, AttributeError, TypeError):
        pass
    expr = sympy.expand_power_base(sympy.powsimp(expr, force=True), force=True)
    v = [Fraction(0)] * NB
    for b, e in expr.as_powers_dict().items():
        if b.is_Number:
            if b != 1:
                raise ValueError("numeric factor %s in a dimension expression" % b)
            continue
        i = BASEDIMS.index(b)       # ValueError for a foreign symbol
        e = sympy.nsimplify(e)
        v[i] += Fraction(int(e.p), int(e.q))
    return tuple(v)


def vec_mul(a, b):
    return tuple(x + y for x, y in zip(a, b))


def vec_pow(a, p):
    return tuple(x * p for x in a)


# atom rows
ATOMS = {}
for _k, _row in LUT.items():
    ATOMS[_k] = dict(scale=Fraction(_row[0]), dec=Decimal(_row[0]), dim=dimvec(_row[1]),
                     offset=float(_row[2]), prefixable=bool(_row[4]), fscale=float(_row[0]))


def build_readings():
    """name -> (power of ten or None, table symbol); table symbols and aliases win over
    prefixed readings (the documented resolution order).  Returns (readings, ambiguous)"""
    reading = {}
    for k in LUT:
        reading[k] = (None, k)
    for k, alts in ALT.items():
        for a in alts:
            if a == "":
                continue
            reading.setdefault(a, (None, k))
            if a.islower() and len(a) >= 4:
                reading.setdefault(a.title(), (None, k))
    for k, row in LUT.items():
        if len(k) > 3 and k.title() != k and all(len(p) > 3 for p in k.split("_")) and not row[4]:
            reading.setdefault(k.title(), (None, k))
    ambiguous = []
    for k, row in LUT.items():
        if not row[4]:
            continue
        spellings = [k] + [a for a in ALT.get(k, ()) if a]
        for p, (e, word) in PREFIX.items():
            for sp in spellings:
                cands = []
                if sp == k or len(sp) < 4:
                    cands.append(p + sp)
                if sp != k:
                    cands += [word + sp, (word + sp).title()]
                for n in cands:
                    if n in reading and reading[n] != (e, k):
                        r0 = reading[n]
                        if name_scale_from(r0) != name_scale_from((e, k)) or ATOMS[r0[1]]["dim"] != ATOMS[k]["dim"]:
                            ambiguous.append((n, r0, (e, k)))
                        continue
                    reading[n] = (e, k)
    return reading, ambiguous


def name_scale_from(rd):
    e, k = rd
    s = ATOMS[k]["scale"]
    if e is not None:
        s = s * Fraction(10) ** e
    return s


READING, AMBIGUOUS = build_readings()


def name_info(name):
    """(Fraction scale, dimvec, offset in the unit's own degrees, is_offset)"""
    e, k = READING[name]
    a = ATOMS[k]
    return name_scale_from((e, k)), a["dim"], a["offset"], bool(a["offset"])


def isclose(a, b, rtol):
    return math.isclose(a, b, rel_tol=rtol, abs_tol=0.0)


# ----------------------------------------------------------------------------------------------
# expression trees:  ("name", s) | ("num", text) | ("mul", a, b) | ("div", a, b) |
#                    ("pow", a, Fraction) | ("sqrt", a)
EXPONENTS = [Fraction(n) for n in (-3, -2, -1, 1, 2, 3)] + [Fraction(1, 2), Fraction(1, 3),
                                                           Fraction(3, 2), Fraction(-1, 2)]
COEFFS = ["2", "10", "2.5", "1e3", "0.001", "1e-7", "3", "4.184", "1000", "0.5"]


def exp_spellings(p):
    if p.denominator == 1:
        n = int(p)
        out = ["%d" % n, "(%d)" % n, "%d.0" % n]
        return out
    out = ["(%d/%d)" % (p.numerator, p.denominator)]
    if p.denominator == 2:
        out.append("%s" % (float(p),))
        out.append("(%s)" % (float(p),))
    return out


def render(t, rng, top=True):
    k = t[0]
    if k == "name":
        return t[1]
    if k == "num":
        return t[1]
    if k in ("mul", "div"):
        op = "*" if k == "mul" else "/"
        a = render(t[1], rng, False)
        b = render(t[2], rng, False)
        if t[1][0] == "div" or (t[1][0] == "mul" and rng.random() < 0.3):
            a = "(" + a + ")"
        if t[2][0] in ("mul", "div"):
            b = "(" + b + ")"
        sp = rng.choice(["", "", " "])
        s = a + sp + op + sp + b
        if not top and rng.random() < 0.15:
            s = "((" + s + "))"
        return s
    if k == "pow":
        a = render(t[1], rng, False)
        if t[1][0] != "name" or rng.random() < 0.2:
            a = "(" + a + ")"
        return a + "**" + rng.choice(exp_spellings(t[2]))
    if k == "sqrt":
        return "sqrt(" + render(t[1], rng, True) + ")"
    raise ValueError(k)


def evaluate(t):
    """(Decimal scale, dimvec)"""
    k = t[0]
    if k == "name":
        s, d, off, _ = name_info(t[1])
        return Decimal(s.numerator) / Decimal(s.denominator), d
    if k == "num":
        return Decimal(t[1]), ZERO
    if k == "mul":
        a, b = evaluate(t[1]), evaluate(t[2])
        return a[0] * b[0], vec_mul(a[1], b[1])
    if k == "div":
        a, b = evaluate(t[1]), evaluate(t[2])
        return a[0] / b[0], vec_mul(a[1], vec_pow(b[1], Fraction(-1)))
    if k == "pow":
        a = evaluate(t[1])
        return dpow(a[0], t[2]), vec_pow(a[1], t[2])
    if k == "sqrt":
        a = evaluate(t[1])
        return dpow(a[0], Fraction(1, 2)), vec_pow(a[1], Fraction(1, 2))
    raise ValueError(k)


def dpow(x, p):
    if p.denominator == 1:
        return x ** int(p)
    return x ** (Decimal(p.numerator) / Decimal(p.denominator))


def gen_tree(rng, names, nfactors, depth=0):
    """random expression with `nfactors` unit-name leaves"""
    def leaf():
        t = ("name", rng.choice(names))
        r = rng.random()
        if r < 0.45:
            t = ("pow", t, rng.choice(EXPONENTS))
        elif r < 0.5:
            t = ("sqrt", t)
        return t
    if nfactors == 1:
        t = leaf()
    else:
        k = rng.randint(1, nfactors - 1)
        a = gen_tree(rng, names, k, depth + 1)
        b = gen_tree(rng, names, nfactors - k, depth + 1)
        t = (rng.choice(["mul", "mul", "div"]), a, b)
        r = rng.random()
        if depth < 2 and r < 0.2:
            t = ("pow", t, rng.choice(EXPONENTS))
        elif depth < 2 and r < 0.27:
            t = ("sqrt", t)
    if depth == 0 and rng.random() < 0.35:
        c = ("num", rng.choice(COEFFS))
        t = rng.choice([("mul", c, t), ("mul", t, c), ("div", t, c), ("div", c, t)])
    elif depth > 0 and rng.random() < 0.05:
        t = ("mul", ("num", rng.choice(COEFFS)), t)
    return t


def leaves(t):
    if t[0] == "name":
        return [t[1]]
    if t[0] == "num":
        return []
    out = []
    for x in t[1:]:
        if isinstance(x, tuple):
            out += leaves(x)
    return out


def leaf_powers(t, acc=Fraction(1)):
    """[(Decimal scale of the leaf, accumulated exponent)]: how the flattened product reads it"""
    k = t[0]
    if k == "name":
        sc = name_info(t[1])[0]
        return [(Decimal(sc.numerator) / Decimal(sc.denominator), acc)]
    if k == "num":
        return [(Decimal(t[1]), acc)]
    if k == "mul":
        return leaf_powers(t[1], acc) + leaf_powers(t[2], acc)
    if k == "div":
        return leaf_powers(t[1], acc) + leaf_powers(t[2], -acc)
    if k == "pow":
        return leaf_powers(t[1], acc * t[2])
    if k == "sqrt":
        return leaf_powers(t[1], acc / 2)
    raise ValueError(k)


def in_float_range(t, per_leaf=150.0, total=290.0):
    """every factor of the flattened product and every partial product stays a finite float"""
    tot = 0.0
    for sc, e in leaf_powers(t):
        lg = abs(float(sc.log10()) * float(e))
        if lg > per_leaf:
            return False
        tot += lg
    return tot < total
