"""C20 bounded stand-in: the unit-string interface is total, canonical and re-readable -- on the
real package.

(A) totality / vocabulary: pinned malformed strings, every table name, grammar-generated valid
    expressions, token-level mutations of them and byte-level fuzz are given to Unit(s) (default and
    three custom registries).  Outcome must be a unit or UnitParseError; anything else is keyed by
    exception type and innermost unyt frame.  A string that is accepted although it uses a construct
    outside {numbers, names, * / ** ( ), sign, sqrt( )} (decided by an independent tokenizer-based
    oracle) is a vocabulary violation; canaries (a flag in builtins / a file) show code execution.
    Calls run in supervised worker processes; a call that does not return within the per-call
    time limit is killed and recorded as resource exhaustion.
(B) print/parse: for every unit obtained from a table name, an accepted string, or random unit
    arithmetic, Unit(str(u)) and Unit(repr(u)) in u's registry must equal u (dimensions, offset,
    scale to 1e-12; identical expr and hash when u has no numeric coefficient).
(C) spellings: every grammar AST is rendered twice (spacing, a/b vs a*b**-1, float/rational/
    parenthesised exponents, sqrt, aliases, unicode/ASCII signs, grouping, factor order); both must
    be accepted, agree with the value/dimension computed from the tables, be equal and have the
    identical expression; plus pinned spelling groups."""
import inspect
import multiprocessing as mp
import multiprocessing.connection as mpc
import os
import resource
import sys
import time

sys.path.insert(0, os.path.dirname(os.path.abspath(__file__)))
from common import Run, replay_script  # noqa: E402

R = Run("C20", "pinned malformed strings + every table symbol / prefixed form / alias name + seeded grammar "
        "generator of valid unit expressions (two renderings per AST) + token-level mutations + byte-level "
        "fuzz, in the default and three custom registries; units from seeded random unit arithmetic; "
        "non-trivial = distinct string (or recipe) that is not a bare table symbol",
        "quick: 20 000 generated strings (3 000 ASTs x 2 renderings, 9 000 mutations, 5 000 byte-fuzz) + ~490 pinned "
        "strings + ~4 200 names + 3 000 arithmetic recipes; thorough: 300 000 generated strings (40 000 x 2, 140 000, "
        "80 000) + pins + names + 40 000 recipes; per-call time limit 5 s (killed worker = resource exhaustion)")

import lib_c20_gen as G  # noqa: E402
from unyt import Unit  # noqa: E402
from unyt.exceptions import UnitParseError  # noqa: E402

TIMEOUT = 5.0
NPROC = 14 if R.thorough else 8
if R.thorough:
    N_GRAMMAR, N_MUT, N_BYTES, N_ARITH = 40000, 140000, 80000, 40000
else:
    N_GRAMMAR, N_MUT, N_BYTES, N_ARITH = 3000, 9000, 5000, 3000

# ------------------------------------------------------------------------------------------
# pinned strings
# ------------------------------------------------------------------------------------------
HANG_PINS = ["10**10**10", "m**2**2**2**2**2**2"]
PINS = [
    # symbol / expression exponents and bases
    "m**s", "m**(2*s)", "2**m", "m**m", "m**(-s)", "m**(s/2)", "m**(s**2)", "m**(2.0*s)", "m**sqrt(s)", "(2*m)**s",
    "m**sqrt(2)", "1e3**(-2)**1e3**(-2)**1e3**(-2)**1e3**(-2)**1e3**(-2)", "1e3**(-2)**1e3**(-2)", "J**((2/3)*(-1)**0.5)", "m**(2**0.5)", "2**0.5*m", "m**(10**10)", "m**10**10", "km**(10**10)", "m**1e400", "1e400*m", "1e-400*m", "m**(1/0)", "m**(0/0)",
    "m/0", "0*m", "0/m", "m**0", "(-2)**(1/3)*m", "(-8)**(1/3)*m", "(-1)**0.5", "(-1)**0.5*m", "m**(-1)**0.5", "(-m)**0.5",
    "(-2*m)**(1/3)", "m**True", "m*True", "m**None", "m**dimensionless", "m**rad", "m**(kg/g)", "m**(m/m)", "m**(s*0)",
    # operators and syntax
    "m^2", "m***2", "m**", "**m", "*m", "m*", "m/", "/m", "(m", "m)", "((m)", "()", "(", ")", "m s", "2m", "m2", "2 m",
    "m+s", "m-s", "m+m", "m-m", "m+s-s", "-m", "+m", "--m", "m*-s", "m/-s", "m**-1", "m**+2", "m**-(1)", "m//s", "4//2*m",
    "m%s", "m % s", "10%", "%%", "m@s", "m<s", "m<=s", "m==s", "m!=s", "m=s", "m:=s", "(m:=s)", "m<<s", "(1<<2)*m", "~1*m",
    "~m", "m|s", "m&s", "(1|2)*m", "(3&1)*m", "(3^1)*m", "m,s", "(m,s)", "(m,s)[0]", "(m,s)[1==1]", "{m:s}[m]", "[m]",
    "[m][0]", "{m}", "m[0]", "m(s)", "(m)(s)", "m.real", "m.__class__", "m.is_positive", "1 .real", "m; s", "m: s",
    "lambda: 1", "lambda: m", "(lambda: m)()", "m if m else s", "m if 1 else s", "[x for x in (m,)]", "m and s", "m or s",
    "not m", "m is s", "m in s", "import os", "def f(): pass", "yield m", "await m", "print(m)", "m!", "m!!", "m'", "'m'",
    "\"m\"", "'m'*3", "'m' 'm'", "f'{m}'", "f'm'", "b'm'", "r'm'", "('a',m)[1]", "(f'',m)[1]", "(1<2,m)[1]", "(...,m)[1]",
    "(1j,m)[1]", "(sin,m)[1]", "...", "m#s", "#m", "m\\", "m*\\\ns", "(m\n*s)", "m\n*s", "m\ns", "m\n", "\nm", "m\r\n",
    "m\x00", "\x00", "m\x0c", "\ufeffm", "m\u200b", "m\u00a0*s", "\ud800", "m\ud800", "\U0001f600", "m\u0301",
    # function calls
    "sqrt(m)", "sqrt(m,s)", "sqrt()", "sqrt", "sqrt(m, evaluate=False)", "sqrt(sqrt)", "sqrt(-1)*m", "sqrt(4)*m",
    "sqrt(2)*m", "sqrt(m*s)", "sqrt(m)*sqrt(m)", "sin(m)", "sin(2)*m", "exp(m)", "log(m)", "abs(-2)*m", "Abs(-2)*m",
    "int(2)*m", "float(2)*m", "str(m)", "type(m)", "eval('m')", "exec('x')", "__import__('os')", "open('x')",
    "getattr(m,'name')", "globals()", "locals()", "vars()", "dir()", "Symbol", "Symbol('x')", "Symbol('m')", "Symbol('')",
    "Symbol('')*m", "Symbol(' ')", "Symbol('m m')", "Symbol(1)", "Symbol()", "Symbol('m', positive=False)",
    "Symbol('m', real=True)", "Integer", "Integer(2)", "Integer(2)*m", "Integer('x')", "Integer(m)", "Float", "Float(2)*m",
    "Float('nan')*m", "Float('inf')*m", "Float('-inf')*m", "Float(m)", "Rational", "Rational(1,2)*m", "Rational(1,0)",
    "Rational(0,0)*m", "Rational('1/3')", "Rational(m)", "__builtins__", "__builtins__['eval']('1')", "__name__", "__doc__",
    # numbers
    "1", "0", "2", "-1", "1.5", "1e3", "1e-3", "0x10*m", "0b1*m", "0o7*m", "1_000*m", "1,000*m", "1 000*m", "1j*m", "m**1j",
    "1e999999*m", "00*m", "01*m", "1.*m", ".5*m", ".*m", "1..2*m", "1e*m", "1e+*m", "٣*m", "２*m", "m**２", "m²", "m**½",
    "inf*m", "nan*m", "nan", "inf", "oo", "zoo", "pi", "E", "I", "S", "N", "Q", "O", "pi*m", "E*m", "I*m", "oo*m",
    # names
    "", " ", "\t", "\n", "  m * s  ", " m", "m ", "\tm", "True", "False", "None", "lambda", "in", "as", "is", "or", "if",
    "else", "def", "class", "import", "print", "min", "max", "id", "_", "__", "___", "a", "A", "Kg", "KG", "kG", "ℳ", "㎏",
    "ｍ", "ѕ", "K", "degK", "%", "°", "°C", "°F", "°K", "°°", "m°", "°m", "°C*°F", "Δ°C", "Δ°F", "ΔdegC", "Δ", "delta_degC",
    "µ", "μ", "u", "µµm", "damm", "dam", "dm", "cd", "dcd", "dad", "code_length", "unitary", "dimensionless",
    "(dimensionless)", "dimensionless**2", "dimensionless*m", "m*'s'", "m" * 5000, "m*" * 200 + "m", "m*" * 3000 + "m",
    "(" * 60 + "m" + ")" * 60, "(" * 300 + "m" + ")" * 300, "sqrt(" * 40 + "m" + ")" * 40, "-" * 3000 + "m",
    "1" * 5000 + "*m", "m**0." + "3" * 3000, " " * 20000, "m**-" * 1500 + "1", "m/" * 3000 + "s", "1e" + "9" * 5 + "*m",
    "m**(10**6)", "m**(10**10**3)", "10**10**3*m", "10**5000+m", "(10**5000, m)", "(10**5000*m)**s", "[10**5000]",
    "s**(10**-5000)-1", "10**5000*m", "m**(10**5000)", "10**-5000*m", "10**5000*nosuchunit",
    # calls of names that are not part of the vocabulary
    "exp(0)*m", "exp(1)*m", "log(1)", "log(1)+m", "Abs(-2)*m", "sin(0)", "sin(0)+m", "cos(0)*m", "tan(0)+m", "pow(m,2)",
    "max(m,s)", "min(2,3)*m", "sum((m,))", "round(2.5)*m", "len('ab')*m", "ord('a')*m", "bool(1)", "factorial(3)*m",
    "Mul(m,s)", "Pow(m,2)", "Add(m,m)", "S(2)*m", "sympify('m')", "parse_expr('m')", "simplify(m)", "N(2)*m", "cbrt(m)",
    "root(m,3)", "Min(2,3)*m", "Max(2,3)*m", "floor(2.5)*m", "ceiling(2.5)*m", "sign(2)*m", "gamma(3)*m", "binomial(4,2)*m",
    "pi*m", "E*m", "exp_polar(0)*m", "Id(m)", "Lambda(x, x)(m)", "Function('f')(m)", "Dummy()", "Wild('a')", "symbols('m')",
    "var('m')", "oo*m", "zoo*m", "nan*m", "true", "false", "GoldenRatio*m", "EulerGamma*m", "Catalan*m", "I*m",
    "m^2", "m^s", "m^-1", "2^3*m", "(m)^(2)", "m ^ 2",
] + G.CANARIES + ["(%s, m)[1]" % c for c in G.CANARIES] + ["m**(%s)" % c for c in G.CANARIES[:6]]


# pins that fail on the tree this driver was written against, grouped by defect so that each defect has one
# pin key; every other pin is its own family (any failure there is new)
PIN_FAMILY = {}
for _s in ["m**(2*s)", "m**(-s)", "m**(s/2)", "m**(s**2)", "m**(2.0*s)", "m**sqrt(s)", "m**(kg/g)"]:
    PIN_FAMILY[_s] = "expression-exponent"
for _s in ["(-2)**(1/3)*m", "(-8)**(1/3)*m", "(-2*m)**(1/3)", "(-2)**(1/3)*code_length", "1e3**(-2)**1e3**(-2)"]:
    PIN_FAMILY[_s] = "complex-coefficient"
for _s in ["Symbol('')", "Symbol('')*m"]:
    PIN_FAMILY[_s] = "empty-symbol-name"
for _s in HANG_PINS:
    PIN_FAMILY[_s] = "power-tower"
for _s in ["1e3**(-2)**1e3**(-2)**1e3**(-2)**1e3**(-2)**1e3**(-2)"]:
    PIN_FAMILY[_s] = "numeric-overflow"
for _s in ["10**5000+m", "(10**5000, m)", "(10**5000*m)**s", "[10**5000]", "s**(10**-5000)-1"]:
    PIN_FAMILY[_s] = "huge-integer-in-error-message"
# pins outside the vocabulary that this tree accepts (reported under their construct class only)
KNOWN_VOCAB_PINS = {"m+m", "m-m", "m+s-s", "4//2*m", "(1<<2)*m", "~1*m", "(1|2)*m", "(3&1)*m", "(3^1)*m", "(m,s)[0]",
                    "(m,s)[1==1]", "{m:s}[m]", "[m][0]", "('a',m)[1]", "(f'',m)[1]", "(1<2,m)[1]", "(...,m)[1]", "(sin,m)[1]",
                    "m#s", "sqrt(m,s)", "Symbol('m')", "Integer(2)", "Integer(2)*m", "Float(2)*m", "Rational(1,2)*m",
                    "Rational('1/3')", "Rational(0,0)*m"}


def pin_label(s):
    if s in PIN_FAMILY:
        return PIN_FAMILY[s]
    if len(s) <= 40 and s.isprintable():
        return s
    return "%s...(len %d)" % (s[:12].encode("unicode_escape").decode(), len(s)) if len(s) > 40 else \
        s.encode("unicode_escape").decode()


SPELL_GROUPS = [
    (["kg*m/s**2", "kg * m / s ** 2", "kg*m*s**-2", "kg*m/s**2.0", "m*kg/s/s", "kg*m/(s*s)", "kg*m*(1/s)**2",
      "(kg*m)/s**2", "kg*m/s**(2)", "kilogram*meter/second**2", "kg*m*s**(-2)", "kg*m*s**-2.0", "\tkg*m/s**2 "], True),
    (["m**0.5", "m**(1/2)", "sqrt(m)", "m**.5", "(m**2)**0.25", "sqrt(sqrt(m**2))", "m/sqrt(m)", "m**(0.5)",
      "m ** ( 1 / 2 )", "(m**(1/4))**2"], True),
    (["µm", "μm", "um", "micrometer", "micrometre", "Micrometer"], True),
    (["µs", "μs", "us", "microsecond"], True),
    (["Ω", "ohm", "Ohm"], True),
    (["kΩ", "kohm", "kiloohm"], True),
    (["Å", "angstrom", "Angstrom"], True),
    (["°C", "degC", "celsius", "degree_celsius"], True),
    (["°F", "degF", "fahrenheit", "degree_fahrenheit"], True),
    (["°", "deg", "degree"], True),
    (["%", "percent"], True),
    (["1/s", "s**-1", "s**(-1)", "s**-1.0", "(s)**-1", "1/(s)", "second**-1", "1.0/s"], True),
    (["g/cm**3", "g*cm**-3", "g/cm/cm/cm", "g/(cm**3)", "g/cm**3.0", "gram/centimeter**3", "g*(1/cm)**3"], True),
    (["km/s/Mpc", "km/(s*Mpc)", "km*s**-1*Mpc**-1", "kilometer/second/megaparsec"], True),
    (["2.5*m", "5*m/2", "(5/2)*m", "m*2.5", "25e-1*m"], True),
    (["dimensionless", "(dimensionless)", "_", " dimensionless "], True),
    (["", "1", "dimensionless", "m/m", "1.0"], False),
    (["N", "kg*m/s**2", "newton"], False),
    (["J", "N*m", "kg*m**2/s**2", "W*s"], False),
]

# ------------------------------------------------------------------------------------------
# replay construction
# ------------------------------------------------------------------------------------------
RT_SRC = ("import math\nfrom sympy import Symbol, Integer, Rational, Float\nfrom fractions import Fraction\n" +
          inspect.getsource(G.same_value) + "SPECIAL_OK = (Symbol, Integer, Rational, Float)\n" +
          inspect.getsource(G.sstr) + inspect.getsource(G.micro_only) +
          inspect.getsource(G.rt_check) + inspect.getsource(G._rt_check))
MK = ("regs = c20_registries()\n"
      "def mk(s, rn):\n    return Unit(s) if regs[rn] is None else Unit(s, registry=regs[rn])\n")


def replay_for(key, spec):
    if spec is None:
        return None
    kind = spec[0]
    head = G.REG_SRC + MK
    if kind == "total":
        _, s, rn = spec
        body = ("try:\n    mk(%r, %r)\nexcept UnitParseError:\n    sys.exit(0)\nexcept Exception as e:\n"
                "    print(type(e).__name__, e); sys.exit(1)\n" % (s, rn))
    elif kind == "timeout":
        _, s, rn = spec
        body = ("import multiprocessing as mp\n"
                "def child():\n    try:\n        mk(%r, %r)\n    except Exception:\n        pass\n"
                "p = mp.get_context('fork').Process(target=child); p.start(); p.join(%r)\n"
                "if p.is_alive():\n    p.kill(); print('no result within the time limit'); sys.exit(1)\n" % (s, rn, 2 * TIMEOUT))
    elif kind == "vocab":
        _, s, rn = spec
        body = ("try:\n    u = mk(%r, %r)\nexcept UnitParseError:\n    sys.exit(0)\n"
                "print('accepted as', repr(u)); sys.exit(1)\n" % (s, rn))
    elif kind == "canary":
        _, s, rn = spec
        body = ("import builtins, os\ntry:\n    mk(%r, %r)\nexcept Exception:\n    pass\n"
                "hit = hasattr(builtins, 'C20_CANARY') or os.path.exists(%r)\n"
                "if os.path.exists(%r): os.remove(%r)\nsys.exit(1 if hit else 0)\n" % (
                    s, rn, G.CANARY_FILE, G.CANARY_FILE, G.CANARY_FILE))
    elif kind == "accept":
        _, s, rn = spec
        body = ("try:\n    mk(%r, %r)\nexcept UnitParseError as e:\n    print(e); sys.exit(1)\n" % (s, rn))
    elif kind == "rt-string":
        _, s, rn, which = spec
        cls = key[len("C20[roundtrip:"):-1]
        body = RT_SRC + ("u = mk(%r, %r)\nr = rt_check(u, %r)\nprint(r)\nsys.exit(1 if r and r[0] == %r else 0)\n" % (
            s, rn, which, cls))
    elif kind == "rt-recipe":
        _, steps, rn, which = spec
        cls = key[len("C20[roundtrip:"):-1]
        body = RT_SRC + ("reg = regs[%r] or unyt.unit_registry.default_unit_registry\n" % rn + "\n".join(steps) +
                         "\nr = rt_check(u, %r)\nprint(r)\nsys.exit(1 if r and r[0] == %r else 0)\n" % (which, cls))
    elif kind == "value":
        _, s, rn, val = spec
        body = ("u = mk(%r, %r)\nprint(u.base_value, %r)\nsys.exit(1 if abs(u.base_value - %r) > 1e-9 * abs(%r) else 0)\n" % (
            s, rn, val, val, val))
    elif kind == "dims":
        _, s, rn, d = spec
        body = "u = mk(%r, %r)\nprint(u.dimensions)\nsys.exit(1 if str(u.dimensions) != %r else 0)\n" % (s, rn, d)
    elif kind == "spell-eq":
        _, s1, s2, rn = spec
        body = ("a = mk(%r, %r); b = mk(%r, %r)\nprint(repr(a), a.base_value, repr(b), b.base_value)\n"
                "sys.exit(0 if (a == b and a.dimensions == b.dimensions and a.base_offset == b.base_offset) else 1)\n" % (
                    s1, rn, s2, rn))
    elif kind == "spell-expr":
        _, s1, s2, rn = spec
        body = ("a = mk(%r, %r); b = mk(%r, %r)\nprint(repr(a.expr), repr(b.expr))\n"
                "sys.exit(0 if (a.expr == b.expr and hash(a) == hash(b)) else 1)\n" % (s1, rn, s2, rn))
    else:
        return None
    return replay_script(head + body)


# ------------------------------------------------------------------------------------------
# tasks
# ------------------------------------------------------------------------------------------
# task = (id, kind, payload...)  kinds: pin / name / str / gram / arith
def run_task(t):
    kind = t[1]
    if kind in ("pin", "str"):
        _, _, s, rn = t
        st, f = G.check_string(s, rn, kind)
        return st, f
    if kind == "name":
        _, _, s, rn = t
        st, f = G.check_string(s, rn, kind)
        if st == "upe":
            cls = "prefix-word+degree-sign" if G.re.search(r"[A-Za-z]{3,}°", s) else "other"
            f.append(("C20[names:rejected:%s]" % cls, "table name %r (registry %s) is rejected" % (s, rn), ("accept", s, rn)))
        return st, f
    if kind == "gram":
        _, _, ast, s1, s2, rn = t
        return "ok", G.check_grammar(ast, s1, s2, rn)
    if kind == "arith":
        _, _, steps, rn = t
        return G.check_arith(steps, rn)
    return "skip", []


def worker_main(conn, cur, tstart):
    try:
        resource.setrlimit(resource.RLIMIT_AS, (3 << 30, 3 << 30))
    except Exception:
        pass
    sys.setrecursionlimit(3000)
    while True:
        try:
            chunk = conn.recv()
        except EOFError:
            break
        if chunk is None:
            break
        stats = {}
        for i, t in enumerate(chunk):
            cur.value = i
            tstart.value = time.time()
            try:
                st, f = run_task(t)
            except BaseException as e:  # driver problem, not a finding
                st, f = "driver", [("DRIVER", "task %r: %r" % (t[:3], e), None)]
            stats[st] = stats.get(st, 0) + 1
            if f:
                conn.send(("r", t[0], f))
        cur.value = -1
        conn.send(("end", stats))


class Worker:
    def __init__(self, ctx):
        self.ctx = ctx
        self.spawn()
        self.chunk = None

    def spawn(self):
        self.conn, child = self.ctx.Pipe()
        self.cur = self.ctx.Value("i", -1, lock=False)
        self.tstart = self.ctx.Value("d", 0.0, lock=False)
        self.proc = self.ctx.Process(target=worker_main, args=(child, self.cur, self.tstart), daemon=True)
        self.proc.start()
        child.close()

    def give(self, chunk):
        self.chunk = chunk
        self.cur.value = -1
        self.tstart.value = time.time()
        self.conn.send(chunk)


def run_supervised(tasks, nproc, chunk_size):
    """returns (findings {task id: [...]}, timeouts [task], stats)"""
    ctx = mp.get_context("fork")
    chunks = []
    solo = [t for t in tasks if t[1] == "pin" and t[2] in HANG_PINS]
    rest = [t for t in tasks if not (t[1] == "pin" and t[2] in HANG_PINS)]
    for t in solo:
        chunks.append([t])
    for i in range(0, len(rest), chunk_size):
        chunks.append(rest[i:i + chunk_size])
    chunks.reverse()        # pop() from the end: hang pins first
    workers = [Worker(ctx) for _ in range(min(nproc, max(1, len(chunks))))]
    findings, timeouts, stats = {}, [], {}
    idle = list(workers)
    busy = []

    def handle(w, msg):
        if msg[0] == "r":
            findings.setdefault(msg[1], []).extend(msg[2])
        elif msg[0] == "end":
            for k, v in msg[1].items():
                stats[k] = stats.get(k, 0) + v
            w.chunk = None
            busy.remove(w)
            idle.append(w)

    while chunks or busy:
        while idle and chunks:
            w = idle.pop()
            w.give(chunks.pop())
            busy.append(w)
        ready = mpc.wait([w.conn for w in busy], timeout=0.1)
        for w in list(busy):
            if w.conn in ready:
                try:
                    while w.chunk is not None and w.conn.poll():
                        handle(w, w.conn.recv())
                except (EOFError, OSError):
                    pass
        now = time.time()
        for w in list(busy):
            i = w.cur.value
            dead = not w.proc.is_alive()
            if w.chunk is not None and ((i >= 0 and now - w.tstart.value > TIMEOUT) or dead):
                # drain what it already reported, then kill and restart on the remainder
                try:
                    while w.conn.poll():
                        handle(w, w.conn.recv())
                except (EOFError, OSError):
                    pass
                if w.chunk is None:
                    continue
                i = max(w.cur.value, 0)
                t = w.chunk[i]
                timeouts.append((t, "died" if dead else "timeout"))
                stats["timeout"] = stats.get("timeout", 0) + 1
                remainder = w.chunk[i + 1:]
                try:
                    w.proc.kill()
                    w.proc.join(2)
                    w.conn.close()
                except Exception:
                    pass
                w.spawn()
                if remainder:
                    w.give(remainder)
                else:
                    w.chunk = None
                    busy.remove(w)
                    idle.append(w)
    for w in workers:
        try:
            w.conn.send(None)
        except Exception:
            pass
    for w in workers:
        w.proc.join(1)
        if w.proc.is_alive():
            w.proc.kill()
    return findings, timeouts, stats


# ------------------------------------------------------------------------------------------
# build the task list (deterministic for a seed)
# ------------------------------------------------------------------------------------------
rng = R.rng
tasks = []


def add(kind, *payload):
    tasks.append((len(tasks), kind) + payload)


for s in HANG_PINS + PINS:
    add("pin", s, "default")
for s in ["m**(2*s)", "code_length", "kcode_mass", "code_temp**2", "Symbol('')", "zork**s", "pc", "kpc", "m", "", "1",
          "dimensionless", "2*3", "blip", "kblip", "(-2)**(1/3)*code_length"]:
    for rn in ("custom", "bare", "json"):
        add("pin", s, rn)

names = list(G.SYMS) + [p + k for k in G.PREFIXABLE for p in G.PREFIXES]
names += [n for n in G.INV if n and n not in set(names)]
for n in names:
    add("name", n, "default")
for rn in ("custom", "json", "bare"):
    for n in G.REG_ATOMS[rn]:
        add("name", n, rn)
    if rn != "bare":
        for n in rng.sample(names, 150):
            add("name", n, rn)
N_NAMES = sum(1 for t in tasks if t[1] == "name")


def pick_reg():
    return rng.choice(["default"] * 14 + ["custom"] * 3 + ["json"] + ["bare"] * 2)


valid_pool = []
for _ in range(N_GRAMMAR):
    rn = pick_reg()
    ast = G.gen_ast(rng, rn)
    if not ast[1]:
        continue
    s1 = G.render(rng, ast, rn)
    s2 = G.render(rng, ast, rn)
    add("gram", ast, s1, s2, rn)
    valid_pool.append((s1, rn))
for _ in range(N_MUT):
    s, rn = rng.choice(valid_pool)
    add("str", G.mutate(rng, s), rn)
for _ in range(N_BYTES):
    add("str", G.bytes_fuzz(rng), pick_reg())
for _ in range(N_ARITH):
    rn = pick_reg()
    add("arith", G.gen_recipe(rng, rn), rn)
# pinned arithmetic witnesses
for steps, rn in [
    (["u = Unit('m', registry=reg)", "u = u ** 2", "u = u / Unit('cm', registry=reg)", "u = u.simplify()"], "default"),
    (["u = Unit('m', registry=reg)", "u = u / Unit('m', registry=reg)"], "default"),
    (["u = Unit('code_length', registry=reg)", "u = u / Unit('code_length', registry=reg)"], "bare"),
    (["u = Unit('code_length', registry=reg)", "u = u / Unit('code_length', registry=reg)"], "custom"),
    (["u = Unit('degC', registry=reg)", "u = u * Unit('mol', registry=reg)"], "default"),
    (["u = Unit('lat', registry=reg)", "u = u / Unit('Zsun', registry=reg)"], "default"),
    (["u = Unit('degF', registry=reg)", "u = u ** 1"], "default"),
    (["u = Unit('delta_degC', registry=reg)"], "default"),
    (["u = Unit('delta_degF', registry=reg)"], "default"),
    (["u = Unit('delta_degC', registry=reg)", "u = u / Unit('s', registry=reg)"], "default"),
    (["u = Unit('micrometer', registry=reg)"], "default"),
    (["u = Unit('g', registry=reg)", "u = u / Unit('cm', registry=reg) ** 3"], "default"),
    (["u = Unit('kpc', registry=reg)", "u = u ** Fraction(3, 2)"], "custom"),
    (["u = Unit(2.5 * Unit('km', registry=reg), registry=reg)"], "default"),
    (["u = Unit('erg', registry=reg)", "u = u.get_mks_equivalent()"], "default"),
    (["u = Unit('l_pl', registry=reg)", "u = u ** 3", "u = (u * Unit('Zlx', registry=reg) / Unit('cerg', registry=reg)).simplify()",
      "u = u ** math.pi"], "default"),
    (["u = Unit('foe', registry=reg)", "u = u / Unit('ystatA', registry=reg)", "u = u ** math.pi", "u = (u * u) ** 0.5"], "default"),
    (["u = Unit('uamp', registry=reg)", "u = u * Unit('s', registry=reg)"], "default"),
    (["u = Unit('code_temp', registry=reg)", "u = Unit(3 * u, registry=reg)", "u = Unit(0.3333333333333333 * u, registry=reg)"], "custom"),
    (["u = Unit('degC', registry=reg)", "u = Unit(2.0 * u, registry=reg)", "u = Unit(0.5 * u, registry=reg)"], "default"),
    (["u = Unit('2*lat', registry=reg)", "u = (u * u) ** 0.5"], "default"),
    (["u = Unit('lat', registry=reg)", "u = Unit(0.5 * u, registry=reg)", "u = (u * u) ** 0.5",
      "u = u / Unit('nSv', registry=reg)"], "default"),
    (["u = Unit('Symbol(\\'m\\')', registry=reg)"], "default"),
]:
    add("arith", steps, rn)

# ------------------------------------------------------------------------------------------
# run
# ------------------------------------------------------------------------------------------
try:
    findings, timeouts, stats = run_supervised(tasks, NPROC, 150)
except Exception as e:  # supervisor problem
    R.notes.append("supervisor failed: %r" % (e,))
    findings, timeouts, stats = {}, [], {}

by_id = {t[0]: t for t in tasks}
for t in tasks:
    kind = t[1]
    if kind == "gram":
        for s in (t[3], t[4]):
            R.case("C20[gram:%s|%s]" % (t[5], s), sample={"kind": "grammar", "string": s, "registry": t[5]})
    elif kind == "arith":
        R.case("C20[arith:%s|%s]" % (t[3], ";".join(t[2])), sample={"kind": "arith", "recipe": t[2]})
    else:
        R.case("C20[%s:%s|%s]" % (kind, t[3], t[2][:300]), nontrivial=(t[2] not in G.LUT),
               sample={"kind": kind, "string": t[2][:80], "registry": t[3]} if kind == "str" else None)

agg = {}       # key -> [count, first id, what, spec]


def record(key, tid, what, spec):
    a = agg.get(key)
    if a is None:
        agg[key] = [1, tid, what, spec]
    else:
        a[0] += 1
        if tid < a[1]:
            a[1], a[2], a[3] = tid, what, spec


for tid in sorted(findings):
    t = by_id[tid]
    for key, what, spec in findings[tid]:
        if key == "DRIVER":
            if len(R.notes) < 20:
                R.notes.append(what[:300])
            continue
        record(key, tid, what, spec)
        if t[1] == "pin" and key.startswith("C20[total:"):
            record("C20[total:pin:%s]" % pin_label(t[2]), tid, what, spec)
        if t[1] == "pin" and key.startswith("C20[vocab:") and t[2] not in KNOWN_VOCAB_PINS:
            record("C20[vocab:pin:%s]" % pin_label(t[2]), tid, what, spec)
for t, why in timeouts:
    if t[1] in ("pin", "str", "name"):
        s, rn = t[2], t[3]
        what = "Unit(%r) (registry %s) did not return within %.0f s (%s): neither a unit nor UnitParseError" % (
            s[:200], rn, TIMEOUT, why)
        record("C20[total:resource-exhaustion]", t[0], what, ("timeout", s, rn))
        if t[1] == "pin":
            lab = pin_label(s)
            record("C20[total:pin:%s]" % lab, t[0], what, ("timeout", s, rn))
    elif t[1] == "gram":
        what = "a valid unit expression did not parse within %.0f s: %r / %r" % (TIMEOUT, t[3], t[4])
        record("C20[total:resource-exhaustion]", t[0], what, ("timeout", t[3], t[5]))
    else:
        R.notes.append("arithmetic recipe timed out: %r" % (t[2],))

# (C) pinned spelling groups, in this process
for group, identical in SPELL_GROUPS:
    us = []
    for s in group:
        R.case("C20[spell:%s]" % s)
        try:
            us.append(Unit(s))
        except UnitParseError as e:
            us.append(None)
            record("C20[spelling:rejected]", len(tasks), "spelling %r (of %r) is rejected: %s" % (s, group[0], str(e)[-100:]),
                   ("accept", s, "default"))
        except Exception as e:
            us.append(None)
            record("C20[total:escapes@%s]" % G.innermost_unyt_frame(e), len(tasks),
                   "Unit(%r) raised %r" % (s, e), ("total", s, "default"))
    a = us[0]
    for s, b in zip(group[1:], us[1:]):
        if a is None or b is None:
            continue
        if not (a == b and b == a and a.dimensions == b.dimensions and a.base_offset == b.base_offset
                and G.same_value(a.base_value, b.base_value)):
            record("C20[spelling:unequal]", len(tasks), "%r and %r should be the same unit: %r (%r, offset %r) vs %r (%r, offset %r)" % (
                group[0], s, a, a.base_value, a.base_offset, b, b.base_value, b.base_offset), ("spell-eq", group[0], s, "default"))
        elif identical and not (a.expr == b.expr and hash(a) == hash(b)):
            cls = "micro-sign" if G.micro_only(a.expr, b.expr) else "other"
            record("C20[spelling:expr:%s]" % cls, len(tasks), "%r and %r spell the same expression but give different "
                   "expressions %r and %r" % (group[0], s, a.expr, b.expr), ("spell-expr", group[0], s, "default"))

for key in sorted(agg):
    n, tid, what, spec = agg[key]
    R.fail(key, "%s   [%d case(s) with this key]" % (what, n), replay_for(key, spec))

R.notes.append("outcomes: %s; generated strings: %d grammar pairs, %d mutations, %d byte-fuzz; %d names; %d recipes; "
               "%d pins; workers %d" % (dict(sorted(stats.items())), len(valid_pool), N_MUT, N_BYTES, N_NAMES, N_ARITH,
                                        len(PINS) + len(HANG_PINS), NPROC))
R.finish()
