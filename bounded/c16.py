"""C16 bounded stand-in: scalars are quantities, arrays are arrays, views stay attached to
their data -- checked on the real, imported package.

Every case is a pair of python source strings (setup, expression) executed in a namespace
initialised with lib_c16_prelude.PRELUDE; the checker is an expression over the result `r`.
A replay is PRELUDE + setup + expression + the same checker.

Oracle (from the property statement):
 * class: a unyt object is a unyt_quantity iff its shape is ()  (verdicts `0d-not-quantity`,
   `multi-quantity` are the letter of the statement; `nonscalar-quantity` -- a unyt_quantity of
   shape (1,), (1,1) or empty -- is the title's "arrays are arrays" and is kept under its own
   verdict so that it can be triaged separately); an operation that dies with the constructor
   guard "unyt_quantity instances must be scalars" tried to build a multi-element quantity
   (`quantity-ctor-raised`).  Any other exception is accepted (counted as trivial).
   Failure keys are C16[<section>:<site>:<verdict>], one site per ufunc / function / accessor.  Two
   diffuse families are lumped into one key each (their witnesses are listed in the notes): results of
   class-preserving functions on a 0-d unyt_array *input* (an object that already breaks the
   invariant), and non-() views of a unyt_quantity input that stay unyt_quantity.
 * indexing / iteration: result == NumPy's on the bare data, with the parent's units and name.
 * memory: view accessors share memory and writes go through both ways; copying accessors do not.
 * construction: unyt_array(ndarray, unit) is a view; ndarray*unit, unit*ndarray are copies; a list
   of quantities is coerced to the first element's unit with converted values, incommensurable
   lists raise IterableUnitCoercionError.
"""
import collections
import os
import re
import sys

sys.path.insert(0, os.path.dirname(os.path.abspath(__file__)))
from common import Run, replay_script  # noqa: E402
from lib_c16_prelude import PRELUDE  # noqa: E402

import numpy as np  # noqa: E402

R = Run("C16",
        "source-level cases over shapes (), (1,), (1,1), (3,), (2,3), (2,2), (1,3), (2,1,3), (0,), (0,3) x "
        "dtypes int64/float64/complex128 (+ int8/float32/complex64 in thorough) x operand kinds "
        "quantity / 0-d unyt_array / unyt_array / 0-d ndarray / ndarray / python scalar / numpy scalar / list: "
        "(A) every ufunc of unyt_array._ufunc_registry called, with out=, and as reduce/accumulate/outer/"
        "reduceat (ufuncs that return bare data get a thin sweep in quick); (B) python operators; (C) a catalogue of NumPy functions, ndarray methods and unyt "
        "conversion methods; (D) Unit*data, data*Unit, data/Unit, Unit/data; (E) unyt_quantity constructor "
        "guard and reshape; (F) a deterministic list of index forms per shape + seeded random composite "
        "indices, iteration; (G) view accessors vs copying accessors (shares_memory and write-through both "
        "ways); (H) constructor view, unit-multiplication copy, coercion of mixed-unit lists.  "
        "Non-trivial = the call succeeded and produced a unyt object (A-E) / a checked result (F-H); raises "
        "are accepted and counted",
        "finite catalogues x 1 seeded data offset (quick) / 3 offsets, 6 dtypes, 10x random indices (thorough)")

NS0 = {}
exec(compile(PRELUDE, "<c16-prelude>", "exec"), NS0)
UF = NS0["UF"]
_has_unyt = NS0["_has_unyt"]
_desc = NS0["_desc"]
unyt_array = NS0["unyt_array"]
unyt_quantity = NS0["unyt_quantity"]

_code = {}
seen_fail = set()
raised = collections.defaultdict(collections.Counter)      # section -> exception type -> n
shape_classes = collections.defaultdict(collections.Counter)  # section -> result shape class -> n
setup_skips = collections.Counter()
lumped = collections.defaultdict(set)                      # lumped key -> sites
bare_results = collections.defaultdict(set)                # section C: sites that never returned a unyt object
unyt_results = collections.defaultdict(set)
deadline_hit = []

DEBUG = bool(os.environ.get("C16_DEBUG"))
raise_samples = {}
BUDGET = R.args.budget or (540.0 if R.thorough else 55.0)


def comp(src, mode):
    c = _code.get((src, mode))
    if c is None:
        c = _code[(src, mode)] = compile(src, "<c16>", mode)
    return c


def replay_for(setup, expr, check, verdict):
    body = (PRELUDE + "\n" + setup + "\nVERDICT = %r\n" % verdict +
            "try:\n    r = %s\nexcept Exception as e:\n    print('raised', repr(e))\n"
            "    sys.exit(1 if (VERDICT == 'quantity-ctor-raised' and isinstance(e, RuntimeError)"
            " and 'must be scalars' in str(e)) or VERDICT == 'raises' else 0)\n" % expr +
            "found = %s\nprint(_desc(r))\nfor f in found: print(f)\n"
            "sys.exit(1 if any(f[1] == VERDICT for f in found) else 0)\n" % check)
    return replay_script(body)


def report(key, text, setup, expr, check, verdict):
    if key in seen_fail:
        return
    seen_fail.add(key)
    R.fail(key, "%s   [setup: %s | expr: %s]" % (text, setup.replace("\n", "; "), expr),
           replay_for(setup, expr, check, verdict))


def shape_class(r):
    out = []
    if isinstance(r, (tuple, list)):
        for x in r:
            out += shape_class(x)
    elif isinstance(r, unyt_array):
        out.append("0-d" if r.shape == () else "empty" if r.size == 0 else "size-1" if r.size == 1 else "multi")
    return out


def evaluate(section, site, fine, setup, expr, check="_cls(r)", lump=None, raises_is_failure=False,
             sample=None):
    """run one case; failure key = C16[section:site:verdict] (or the lumped key given by lump(ns, verdict))"""
    ckey = "C16[%s:%s|%s]" % (section, site, fine)
    ns = dict(NS0)
    try:
        exec(comp(setup, "exec"), ns)
    except Exception as e:  # the bare/NumPy side of the case is not defined: not a case
        setup_skips[section + ":" + type(e).__name__] += 1
        return None
    try:
        r = eval(comp(expr, "eval"), ns)
    except Exception as e:
        R.case(ckey, nontrivial=False)
        if isinstance(e, RuntimeError) and "must be scalars" in str(e):
            report("C16[%s:%s:quantity-ctor-raised]" % (section, site),
                   "the operation tried to build a multi-element unyt_quantity: %r" % e,
                   setup, expr, check, "quantity-ctor-raised")
        elif raises_is_failure:
            report("C16[%s:%s:raises]" % (section, site), "raised %r where NumPy on the bare data succeeds" % e,
                   setup, expr, check, "raises")
        else:
            raised[section][type(e).__name__] += 1
            if DEBUG:
                raise_samples.setdefault((section, type(e).__name__, str(e)[:60]), (setup, expr))
        return None
    ns["r"] = r
    try:
        found = eval(comp(check, "eval"), ns)
    except Exception as e:
        setup_skips[section + ":check:" + type(e).__name__] += 1
        if len(R.notes) < 20:
            R.notes.append("checker failed for %s | %s | %s: %r" % (setup, expr, check, e))
        return None
    nontrivial = _has_unyt(r) or check != "_cls(r)"
    R.case(ckey, nontrivial=nontrivial, sample=sample)
    for c in shape_class(r):
        shape_classes[section][c] += 1
    (unyt_results if _has_unyt(r) else bare_results)[section].add(site)
    done = set()
    for path, verdict, text in found:
        if verdict in done:
            continue
        done.add(verdict)
        key = lump(ns, verdict) if lump else None
        if key:
            lumped[key].add(site)
        else:
            key = "C16[%s:%s:%s]" % (section, site, verdict)
        report(key, text, setup, expr, check, verdict)
    return r


def out_of_time(section):
    if R.elapsed() > BUDGET:
        if section not in deadline_hit:
            deadline_hit.append(section)
        return True
    return False


# ----------------------------------------------------------------------------------------------
# operands as source text
DT_QUICK = ["float64", "int64", "complex128"]
DT_ALL = DT_QUICK + ["float32", "int8", "complex64"]
DTYPES = DTYPES_ALL = DT_ALL if R.thorough else DT_QUICK
OFFSETS = [R.rng.randrange(0, 6) for _ in range(3 if R.thorough else 1)]
SHAPES = [(), (1,), (1, 1), (3,), (2, 3), (2, 1, 3), (0,), (0, 3)]


def lit(dt, k):
    kind = np.dtype(dt).kind
    if kind in "iu":
        return "%d" % (3 + k)
    if kind == "f":
        return "%r" % (2.75 + k)
    return "(%r+1.5j)" % (2.75 + k)


def operand(kind, shape, dt, unit, k):
    if kind == "Q":
        return "unyt_quantity(np.%s(%s), %r)" % (np.dtype(dt).name, lit(dt, k), unit)
    if kind == "A":
        return "unyt_array(_arr(%r, %r, %d), %r)" % (shape, dt, k, unit)
    if kind == "N":
        return "_arr(%r, %r, %d)" % (shape, dt, k)
    if kind == "P":
        return lit(dt, k)
    if kind == "S":
        return "np.%s(%s)" % (np.dtype(dt).name, lit(dt, k))
    if kind == "L":
        return "_arr(%r, %r, %d).tolist()" % (shape, dt, k)
    raise ValueError(kind)


def kinds_for(shape):
    return ["Q", "A", "N", "P", "S"] if shape == () else ["A", "N", "L"]


SHAPE_PAIRS = [((), ()), ((), (1,)), ((1,), ()), ((), (3,)), ((3,), ()), ((1,), (1,)), ((1, 1), (1,)),
               ((3,), (3,)), ((2, 3), (3,)), ((2, 1, 3), (2, 3)), ((1,), (3,)), ((0,), ()), ((0,), (0,)),
               ((0, 3), (3,)), ((2, 3), ())]
MAT_PAIRS = [((3,), (3,)), ((1,), (1,)), ((2, 3), (3,)), ((3,), (3, 2)), ((2, 3), (3, 2)), ((1, 3), (3, 1)),
             ((2, 2, 3), (3,)), ((0,), (0,)), ((2, 0), (0, 2)), ((2, 3), (2, 3)), ((1, 3), (1, 3))]
UNIT_PAIRS = UNIT_PAIRS_ALL = [("m", "m"), ("km", "m"), ("m", "s"), ("dimensionless", "dimensionless")]


def kind_pairs(s0, s1):
    for k0 in kinds_for(s0):
        for k1 in kinds_for(s1):
            if k0 in "QA" or k1 in "QA":
                yield k0, k1


# ----------------------------------------------------------------------------------------------
# A. ufuncs
# ufuncs that return bare data (or always raise) on unyt input, from the property's reading of the ufunc
# table: transcendental, rounding-to-number, comparison, logical, predicate and bit-twiddling ufuncs.
# They can only violate C16 by returning a mis-classed unyt object, so quick gives them a thin sweep.
NO_UNIT = {"logaddexp", "logaddexp2", "rint", "sign", "exp", "exp2", "log", "log2", "log10", "expm1", "log1p", "sin",
           "cos", "tan", "sinh", "cosh", "tanh", "arcsin", "arccos", "arctan", "arcsinh", "arccosh", "arctanh",
           "deg2rad", "rad2deg", "bitwise_and", "bitwise_or", "bitwise_xor", "invert", "left_shift", "right_shift",
           "greater", "greater_equal", "less", "less_equal", "not_equal", "equal", "logical_and", "logical_or",
           "logical_xor", "logical_not", "isfinite", "isinf", "isnan", "signbit", "ldexp", "frexp", "isnat"}


def section_ufuncs():
    sec = "ufunc"
    names = sorted(n for n in UF if n not in NO_UNIT) + sorted(n for n in UF if n in NO_UNIT)
    for name in names:
        uf = UF[name]
        if out_of_time(sec):
            return
        call = "UF[%r]" % name
        thin = name in NO_UNIT and not R.thorough
        DTYPES = ["float64", "int64"] if thin else DTYPES_ALL
        UNIT_PAIRS = UNIT_PAIRS_ALL[:1] + UNIT_PAIRS_ALL[3:] if thin else UNIT_PAIRS_ALL
        if uf.nin == 1:
            for k in OFFSETS:
                for shape in SHAPES:
                    for kind in (["Q", "A"] if shape == () else ["A"]):
                        for dt in DTYPES:
                            for unit in ("m", "km", "dimensionless"):
                                setup = "x = " + operand(kind, shape, dt, unit, k)
                                fine = "%s%s %s %s k%d" % (kind, shape, dt, unit, k)
                                evaluate(sec, name, "call " + fine, setup, "%s(x)" % call,
                                         sample={"ufunc": name, "x": setup} if name == "modf" and shape == ()
                                         and kind == "A" and dt == "float64" and unit == "m" else None)
                                if unit != "m" or np.dtype(dt).kind == "i":
                                    continue
                                # out= as unyt buffer with a foreign unit (quantity for 0-d results, 0-d
                                # unyt_array as well), and as bare ndarray
                                for om, wrap in (("outU", "_out(%s, 's')"), ("outA0", "_out(%s, 's', True)"),
                                                 ("outN", "np.zeros_like(%s)")):
                                    if om == "outA0" and shape != ():
                                        continue
                                    if uf.nout == 1:
                                        o = wrap % ("%s(np.asarray(x))" % call)
                                    else:
                                        o = "tuple(%s for t in %s(np.asarray(x)))" % (wrap % "t", call)
                                    evaluate(sec, name, "call+out " + fine + om, setup + "\no = " + o,
                                             "%s(x, out=o)" % call)
        elif uf.nin == 2:
            pairs = MAT_PAIRS if uf.signature else SHAPE_PAIRS
            done = set()
            for k in OFFSETS:
                for s0, s1 in pairs:
                    for k0, k1 in kind_pairs(s0, s1):
                        for dt in DTYPES:
                            for u0, u1 in UNIT_PAIRS:
                                a = operand(k0, s0, dt, u0, k)
                                b = operand(k1, s1, dt, u1, k + 1)
                                if (a, b) in done:
                                    continue
                                done.add((a, b))
                                setup = "x = %s\ny = %s" % (a, b)
                                fine = "%s%s,%s%s %s %s,%s k%d" % (k0, s0, k1, s1, dt, u0, u1, k)
                                evaluate(sec, name, "call " + fine, setup, "%s(x, y)" % call)
                                if (u0, u1) not in (("m", "m"), ("m", "s")) or np.dtype(dt).kind == "i" \
                                        or k0 + k1 not in ("QQ", "AA", "QA", "AQ", "AN", "NA", "QN", "NQ", "QP"):
                                    continue
                                bare = "%s(np.asarray(x), np.asarray(y))" % call
                                for om, wrap in (("outU", "_out(%s, 'kg')"), ("outA0", "_out(%s, 'kg', True)"),
                                                 ("outN", "np.zeros_like(%s)")):
                                    if om == "outA0" and (s0, s1) != ((), ()):
                                        continue
                                    if uf.nout == 1:
                                        o = wrap % bare
                                    else:
                                        o = "tuple(%s for t in %s)" % (wrap % "t", bare)
                                    evaluate(sec, name, "call+out " + fine + om, setup + "\no = " + o,
                                             "%s(x, y, out=o)" % call)
            if uf.signature or thin:
                continue
            # reduce / accumulate / reduceat on unyt arrays
            for k in OFFSETS[:1]:
                for shape in SHAPES[1:] + [(2, 2)]:
                    for dt in DTYPES:
                        for unit in ("m", "dimensionless"):
                            setup = "x = " + operand("A", shape, dt, unit, k)
                            fine = "A%s %s %s" % (shape, dt, unit)
                            for args in ("", ", axis=0", ", axis=-1", ", axis=None", ", keepdims=True",
                                         ", axis=0, keepdims=True", ", axis=(0, 1)"):
                                if "(0, 1)" in args and len(shape) < 2:
                                    continue
                                evaluate(sec, name, "reduce " + fine + args, setup, "%s.reduce(x%s)" % (call, args))
                            for args in ("", ", axis=-1"):
                                evaluate(sec, name, "accumulate " + fine + args, setup,
                                         "%s.accumulate(x%s)" % (call, args))
                            if len(shape) == 1 and shape[0] >= 1:
                                evaluate(sec, name, "reduceat " + fine, setup, "%s.reduceat(x, [0])" % call)
                            if unit == "m" and np.dtype(dt).kind != "i":
                                red = "%s.reduce(np.asarray(x))" % call
                                evaluate(sec, name, "reduce+out " + fine, setup + "\no = _out(%s, 's')" % red,
                                         "%s.reduce(x, out=o)" % call)
                # outer
                for s0, s1 in [((), ()), ((3,), ()), ((), (3,)), ((3,), (2,)), ((1,), (1,)), ((0,), (3,)),
                               ((2, 3), (2,)), ((1,), ())]:
                    for k0, k1 in kind_pairs(s0, s1):
                        if k0 in "SL" or k1 in "SL":
                            continue
                        for dt in DTYPES:
                            for u0, u1 in UNIT_PAIRS[:3]:
                                setup = "x = %s\ny = %s" % (operand(k0, s0, dt, u0, k), operand(k1, s1, dt, u1, k + 1))
                                evaluate(sec, name, "outer %s%s,%s%s %s %s,%s" % (k0, s0, k1, s1, dt, u0, u1),
                                         setup, "%s.outer(x, y)" % call)
        elif uf.nin == 3:   # clip
            for shape in SHAPES:
                for kind in (["Q", "A"] if shape == () else ["A"]):
                    for dt in DTYPES:
                        for lo, hi in (("unyt_quantity(3.0, 'm')", "unyt_quantity(5.0, 'm')"),
                                       ("unyt_quantity(0.003, 'km')", "unyt_quantity(500.0, 'cm')"),
                                       ("unyt_array(np.full(%r, 3.0), 'm')" % (shape,), "unyt_quantity(5.0, 'm')")):
                            setup = "x = %s\nlo = %s\nhi = %s" % (operand(kind, shape, dt, "m", OFFSETS[0]), lo, hi)
                            fine = "%s%s %s %s" % (kind, shape, dt, lo[:12] + lo[-6:])
                            evaluate(sec, name, "call " + fine, setup, "%s(x, lo, hi)" % call)
                            evaluate(sec, name, "method " + fine, setup, "x.clip(lo, hi)")
                            if np.dtype(dt).kind != "i":
                                evaluate(sec, name, "call+out " + fine, setup + "\no = _out(np.zeros(%r, %r), 's')"
                                         % (shape, dt), "%s(x, lo, hi, out=o)" % call)


# ----------------------------------------------------------------------------------------------
# B. python operators
# binary operators other than ** dispatch straight to the ufunc: their failures carry the ufunc's key
BIN_OPS = [("ufunc", "add", "x + y"), ("ufunc", "subtract", "x - y"), ("ufunc", "multiply", "x * y"),
           ("ufunc", "divide", "x / y"), ("ufunc", "floor_divide", "x // y"), ("ufunc", "remainder", "x % y"),
           ("op", "pow", "x ** y"), ("ufunc", "divmod", "divmod(x, y)")]
UN_OPS = [("neg", "-x"), ("pos", "+x"), ("abs", "abs(x)"), ("pow0", "x ** 0"), ("pow0", "x ** 0.0"),
          ("pow", "x ** 1"), ("pow", "x ** 2"), ("pow", "x ** 0.5"), ("pow", "x ** -1"),
          ("pow", "x ** np.full(x.shape, 2.0)"), ("pow0", "x ** np.float64(0)"), ("pow0", "x ** False"),
          ("round", "round(x)")]


def section_operators():
    sec = "op"
    k = OFFSETS[0]
    for shape in SHAPES:
        for kind in (["Q", "A"] if shape == () else ["A"]):
            for dt in DTYPES:
                for unit in ("m", "dimensionless"):
                    setup = "x = " + operand(kind, shape, dt, unit, k)
                    for site, ex in UN_OPS:
                        evaluate(sec, site, "%s %s%s %s %s" % (ex, kind, shape, dt, unit), setup, ex,
                                 sample={"op": ex, "x": setup}
                                 if site == "pos" and shape == () and kind == "A" and dt == "float64" and unit == "m"
                                 else None)
    done = set()
    for s0, s1 in SHAPE_PAIRS:
        for k0, k1 in kind_pairs(s0, s1):
            for dt in DTYPES:
                for u0, u1 in UNIT_PAIRS:
                    a, b = operand(k0, s0, dt, u0, k), operand(k1, s1, dt, u1, k + 1)
                    if (a, b) in done:
                        continue
                    done.add((a, b))
                    for sec_, site, ex in BIN_OPS:
                        evaluate(sec_, site, "op %s %s%s,%s%s %s %s,%s" % (ex, k0, s0, k1, s1, dt, u0, u1),
                                 "x = %s\ny = %s" % (a, b), ex)
    for s0, s1 in MAT_PAIRS:
        for k0, k1 in kind_pairs(s0, s1):
            for dt in DTYPES:
                a, b = operand(k0, s0, dt, "m", k), operand(k1, s1, dt, "s", k + 1)
                evaluate("ufunc", "matmul", "op @ %s%s,%s%s %s" % (k0, s0, k1, s1, dt), "x = %s\ny = %s" % (a, b), "x @ y")


# ----------------------------------------------------------------------------------------------
# C. NumPy functions, ndarray methods, unyt methods
def function_catalogue():
    cat = []
    red = ["sum", "mean", "std", "var", "prod", "min", "max", "amax", "amin", "ptp", "median", "average", "nansum",
           "nanmean", "nanmedian", "nanmin", "nanmax", "nanstd", "nanvar", "nanprod", "cumsum", "nancumsum"]
    for fn in red:
        for args in ("", ", axis=0", ", axis=-1", ", keepdims=True", ", axis=0, keepdims=True"):
            if "keepdims" in args and "cum" in fn:
                continue
            cat.append(("np." + fn, "np.%s(x%s)" % (fn, args)))
    for fn in ["sum", "mean", "std", "var", "prod", "min", "max", "cumsum", "trace", "diagonal"]:
        for args in ("", "axis=0", "axis=-1", "keepdims=True"):
            if args and fn in ("trace", "diagonal") or ("keepdims" in args and fn == "cumsum"):
                continue
            cat.append(("x." + fn, "x.%s(%s)" % (fn, args)))
    for fn, p in (("percentile", "50"), ("quantile", "0.5"), ("nanpercentile", "50"), ("nanquantile", "0.5")):
        for args in (p, "[%s]" % p, "[%s, %s]" % (p, p), p + ", axis=0", p + ", keepdims=True", p + ", axis=-1"):
            cat.append(("np." + fn, "np.%s(x, %s)" % (fn, args)))
    for e in ["np.trapezoid(x)", "np.trapezoid(x, axis=0)", "np.trapezoid(x, dx=q1)", "np.trapezoid(x, y)",
              "np.trapezoid(x, dx=2.0)", "np.linalg.norm(x)", "np.linalg.norm(x, axis=-1)",
              "np.linalg.norm(x, axis=0, keepdims=True)", "np.linalg.norm(x.ravel(), ord=1)",
              "np.take(x, 0)", "np.take(x, [0])", "np.take(x, [0, -1])", "np.take(x, 0, axis=0)",
              "np.take(x, [[0]])", "np.take(x, np.array(0))", "np.take(x, [], axis=0)",
              "np.take(x, 0, out=unyt_quantity(np.zeros((), x.dtype), 's'))", "x.take(0)", "x.take([0, 0])",
              "x.take(0, axis=-1)", "x.take([[0, 0]])",
              "np.dot(x, y)", "np.dot(x, z)", "x.dot(y)", "np.dot(x, 2.0)", "np.dot(x, y.T)", "x.dot(y.T)",
              "np.dot(x.ravel(), y.ravel())", "x.ravel().dot(y.ravel())", "np.dot(x, q1)", "np.dot(q1, x)",
              "np.vdot(x, y)", "np.inner(x, y)", "np.inner(x.ravel(), y.ravel())", "np.outer(x, y)", "np.kron(x, y)",
              "np.cross(x, y)", "np.tensordot(x, y, axes=x.ndim)", "np.tensordot(x, y, axes=0)",
              "np.matmul(x, y.T)", "np.matmul(x.ravel(), y.ravel())", "np.vecdot(x, y)", "np.linalg.outer(x, y)",
              "np.linalg.det(x)", "np.linalg.inv(x)", "np.linalg.eigvals(x)", "np.linalg.eigvalsh(x)",
              "np.linalg.solve(x, y)", "np.linalg.svd(x, compute_uv=False)", "np.linalg.pinv(x)",
              "np.trace(x)", "np.diagonal(x)", "np.diag(x)",
              "np.einsum('i,i', x, z)", "np.einsum('ij->', x)", "np.einsum('ii', x)", "np.einsum('ij,j', x, z[0])",
              "np.einsum('...->...', x)", "np.einsum('i->', x)", "np.einsum('ij->j', x)", "np.einsum('', x)",
              "np.einsum('i,i->i', x, z)", "np.einsum('ijk->', x)", "np.einsum('...->', x)",
              "np.squeeze(x)", "x.squeeze()", "np.squeeze(x, axis=0)", "np.reshape(x, -1)", "x.reshape(-1)",
              "x.reshape(())", "np.reshape(x, ())", "x.reshape(1)", "x.reshape((1, 1))", "x.reshape(x.shape)",
              "np.ravel(x)", "x.ravel()", "x.flatten()", "np.transpose(x)", "x.T", "x.transpose()",
              "np.swapaxes(x, 0, -1)", "x.swapaxes(0, -1)", "np.moveaxis(x, 0, -1)", "np.atleast_1d(x)",
              "np.atleast_2d(x)", "np.atleast_3d(x)", "np.expand_dims(x, 0)", "np.flip(x)", "np.roll(x, 1)",
              "np.tile(x, 2)", "np.tile(x, 1)", "np.repeat(x, 2)", "np.repeat(x, 1)", "x.repeat(2)", "x.repeat(1)",
              "np.broadcast_to(x, (2,) + x.shape)", "np.broadcast_to(x, x.shape)", "np.rot90(x)",
              "np.sort(x)", "np.sort(x, axis=None)", "np.unique(x)", "np.copy(x)", "x.copy()", "_copy.copy(x)",
              "_copy.deepcopy(x)", "_pickle.loads(_pickle.dumps(x))", "x.view()", "x.view(type(x))",
              "x.astype('float32')", "x.astype(x.dtype)", "x.astype(x.dtype, copy=False)", "np.asarray(x)",
              "np.asanyarray(x)", "np.ascontiguousarray(x)", "np.asfortranarray(x)", "np.array(x, subok=True)",
              "np.array(x, subok=True, ndmin=1)", "np.array(x, subok=True, ndmin=2)", "np.require(x)",
              "np.real(x)", "np.imag(x)", "x.real", "x.imag", "np.conj(x)", "x.conj()",
              "np.around(x)", "np.round(x, 1)", "x.round()", "x.round(1)", "np.around(x, out=o)", "np.fix(x)",
              "np.clip(x, q0, q1)", "x.clip(q0, q1)", "np.clip(x, q0, q1, out=o)", "np.clip(x, q0, None)",
              "np.ones_like(x)", "np.zeros_like(x)", "np.full_like(x, 1.0)", "np.empty_like(x)", "x.unit_array",
              "x.ua", "x.unit_quantity", "x.uq", "np.diff(x)", "np.ediff1d(x)", "np.gradient(x)",
              "np.concatenate([x, z])", "np.concatenate([x, z], axis=None)", "np.stack([x, z])",
              "np.stack([x, z], axis=-1)", "np.vstack([x, z])", "np.hstack([x, z])", "np.dstack([x, z])",
              "np.column_stack([x, z])", "np.block([x, z])", "np.append(x, z)", "np.insert(x, 0, q0)",
              "np.delete(x, 0)", "np.where(np.asarray(x) > 3, x, z)", "np.where(True, x, z)",
              "np.select([np.asarray(x) > 3], [x], q0)", "np.choose(0, [x, z])", "np.compress([True], x)",
              "np.extract(np.asarray(x) > 3, x)", "np.interp(q0, np.sort(z.ravel()), y.ravel())",
              "np.interp(x, np.sort(z.ravel()), y.ravel())", "np.linspace(q0, q1, 5)", "np.linspace(q0, q1, 1)",
              "np.linspace(q0, q1, 0)", "np.linspace(x, z, 3)", "np.linspace(x, z, 1)",
              "np.linspace(q0, q1, 3, retstep=True)", "np.geomspace(q0, q1, 4)", "np.logspace(0, 1, 3, base=q0)",
              "np.convolve(x, z)", "np.correlate(x, z)", "np.pad(x, 1)", "np.triu(x)", "np.tril(x)",
              "np.fft.fft(x)", "np.fft.ifft(x)", "np.union1d(x, z)", "np.intersect1d(x, z)", "np.setdiff1d(x, z)",
              "np.nan_to_num(x)", "np.histogram(x, bins=2)", "np.meshgrid(x, z)", "np.meshgrid(q0, q1)",
              "np.meshgrid(x, q0)", "np.broadcast_arrays(x, q0)", "np.array_split(x, 2)", "np.split(x, 1)",
              "np.apply_along_axis(np.sum, 0, x)", "np.apply_over_axes(np.sum, x, [0])", "np.cov(x)",
              "np.max(x, initial=0.0)", "np.maximum.reduce(x)", "np.sum(x, where=np.asarray(x) > 3)",
              "np.cumulative_sum(x, axis=0)", "np.unwrap(x)", "np.flipud(x)", "np.trim_zeros(x)",
              "np.resize(x, (2,))", "np.resize(x, ())", "np.matrix_transpose(x)", "x.mT", "np.permute_dims(x)",
              "np.unstack(x)", "np.nanmax(x, axis=0)", "np.partition(x, 0)", "x.item()", "x.tolist()", "x[()]",
              "x.to('km')", "x.in_units('km')", "x.to('m')", "x.in_units(x.units)", "x.in_base()", "x.in_cgs()",
              "x.in_mks()", "x.in_base('cgs')", "x.to_equivalent('Hz', 'spectral')",
              "x.to_equivalent('km', 'spectral')", "np.sum(x, out=unyt_quantity(np.zeros((), x.dtype), 's'))",
              "np.mean(x, out=unyt_quantity(np.zeros((), 'float64'), 's'))",
              "np.dot(x.ravel(), y.ravel(), out=unyt_quantity(np.zeros((), x.dtype), 's'))",
              "np.einsum('i,i', x, z, out=unyt_quantity(np.zeros((), x.dtype), 's'))",
              "np.einsum('ij->', x, out=unyt_quantity(np.zeros((), x.dtype), 's'))",
              "np.take(x, 0, axis=0, out=_out(np.take(_bare(x), 0, axis=0), 's'))",
              "np.around(x, out=_out(_bare(x), 's', True))", "np.clip(x, q0, q1, out=_out(_bare(x), 's', True))",
              "np.prod(x, axis=0)", "np.std(x, ddof=0)", "np.var(x, axis=-1, keepdims=True)"]:
        cat.append((e.split("(")[0], e))
    # one site per function: np.squeeze(x) and x.squeeze() are the same code
    return [(site[3:] if site.startswith("np.") else site[2:] if site.startswith("x.") else site, e) for site, e in cat]


F_SHAPES = [(), (1,), (1, 1), (3,), (2, 3), (2, 2), (1, 3), (2, 1, 3), (0,), (0, 3)]


def lump_func(ns, verdict):
    x = ns.get("x")
    if verdict == "0d-not-quantity" and isinstance(x, unyt_array) and x.shape == () \
            and not isinstance(x, unyt_quantity):
        return "C16[func:0d-unyt_array-input-class-preserved:0d-not-quantity]"
    if verdict == "nonscalar-quantity" and isinstance(x, unyt_quantity):
        return "C16[func:quantity-input-class-preserved:nonscalar-quantity]"
    return None


def section_functions():
    sec = "func"
    cat = function_catalogue()
    for k in OFFSETS:
        for shape in F_SHAPES:
            for kind in (["Q", "A"] if shape == () else ["A"]):
                for dt in DTYPES:
                    if out_of_time(sec):
                        return
                    odt = dt if np.dtype(dt).kind != "i" else "float64"
                    setup = ("x = %s\ny = unyt_array(_arr(%r, %r, %d), 's')\nz = unyt_array(_arr(%r, %r, %d), 'm')\n"
                             "q0 = unyt_quantity(1.5, 'm')\nq1 = unyt_quantity(9.5, 'm')\n"
                             "o = _out(np.zeros(%r, %r), 's')"
                             % (operand(kind, shape, dt, "m", k), shape, dt, k + 1, shape, dt, k + 2, shape, odt))
                    lines = setup.split("\n")
                    for site, ex in cat:
                        # only the variables the expression mentions (keeps `what` and replays short)
                        su = "\n".join(ln for ln in lines if ln.startswith("x = ") or
                                       re.search(r"\b%s\b" % ln.split(" = ")[0], ex))
                        evaluate(sec, site, "%s|%s%s %s k%d" % (ex, kind, shape, dt, k), su, ex, lump=lump_func)


# ----------------------------------------------------------------------------------------------
# D. Unit * data
def section_unitmul():
    sec = "unitmul"
    data = [("py-int", "3"), ("py-float", "2.5"), ("py-complex", "(1+2j)"), ("np-float32", "np.float32(2.5)"),
            ("np-int8", "np.int8(3)"), ("np-complex64", "np.complex64(1+2j)"), ("np-float64", "np.float64(2.5)"),
            ("list", "[1, 2, 3]"), ("list1", "[1.5]"), ("list0", "[]"), ("list-nested", "[[1, 2], [3, 4]]"),
            ("list-nested1", "[[1.5]]"), ("tuple", "(1.0, 2.0)"), ("tuple1", "(1.0,)"), ("range", "range(3)")]
    for shape in F_SHAPES:
        for dt in DTYPES:
            data.append(("ndarray%s" % (shape,), "_arr(%r, %r, %d)" % (shape, dt, OFFSETS[0])))
            data.append(("unyt_array%s" % (shape,), "unyt_array(_arr(%r, %r, %d), 's')" % (shape, dt, OFFSETS[0])))
        data.append(("unyt_quantity", "unyt_quantity(%s, 's')" % lit("float64", OFFSETS[0])))
    for ustr in ("m", "km/s", "degC", "dimensionless"):
        for dname, dsrc in data:
            setup = "u = Unit(%r)\nd = %s" % (ustr, dsrc)
            for form, ex in (("data*unit", "d * u"), ("unit*data", "u * d"), ("data/unit", "d / u"),
                             ("unit/data", "u / d")):
                check = "_cls(r)"
                if "array" in dname and form in ("data*unit", "unit*data"):
                    check = "_cls(r) + _mem_copy(r, d)"
                evaluate(sec, form, "%s %s %s" % (dname, dsrc, ustr), setup, ex, check,
                         sample={"expr": ex, "setup": setup}
                         if dname == "list1" and ustr == "m" and form == "data*unit" else None)


# ----------------------------------------------------------------------------------------------
# E. unyt_quantity constructor guard, reshape
def section_ctor():
    sec = "ctor"
    for shape in [(2,), (1, 2), (2, 1), (2, 1, 3), (3,)]:
        for dt in DTYPES:
            for src in ("_arr(%r, %r)" % (shape, dt), "unyt_array(_arr(%r, %r), 'm')" % (shape, dt)):
                for kw in ("", ", bypass_validation=True"):
                    for un in ("'m'", "Unit('m')"):
                        if kw and un == "'m'":
                            continue
                        evaluate(sec, "quantity-size-guard", "%s%s%s" % (src, un, kw), "d = " + src,
                                 "_must_raise(lambda: unyt_quantity(d, %s%s), RuntimeError)" % (un, kw), "r")
            evaluate(sec, "quantity-size-guard", "nounit %s %s" % (shape, dt),
                     "d = unyt_array(_arr(%r, %r), 'm')" % (shape, dt),
                     "_must_raise(lambda: unyt_quantity(d), RuntimeError)", "r")
    for src in ("3", "2.5", "(1+2j)", "np.float32(2.5)", "np.int8(3)", "np.array(2.5)", "np.array(3)",
                "unyt_quantity(2.5, 'km')", "unyt_array(np.array(2.5), 'km')"):
        for un in ("'m'", "Unit('m')", "None"):
            evaluate(sec, "quantity-scalar", "%s %s" % (src, un), "d = " + src, "unyt_quantity(d, %s)" % un)
    for dt in DTYPES:
        setup = "x = " + operand("Q", (), dt, "km", OFFSETS[0])
        for args in ("1", "(1,)", "1, 1", "(1, 1)", "(1, 1, 1)", "-1", "(-1,)", "[1]", "(1, -1)", "-1, 1"):
            evaluate(sec, "quantity-reshape", "%s %s" % (args, dt), setup, "x.reshape(%s)" % args,
                     "_cls(r) + ([] if type(r) is unyt_array and r.units is not None and _same_unit(r.units, x.units) "
                     "else [('r', 'not-unyt_array', _desc(r))]) + _mem_view(r, x)")
            evaluate(sec, "np.reshape(quantity)", "%s %s" % (args, dt), setup,
                     "np.reshape(x, %s)" % (args if args[0] in "([" else "(%s,)" % args),
                     "_cls(r) + ([] if type(r) is unyt_array else [('r', 'not-unyt_array', _desc(r))])")
        for args in ("()", "", "(), order='C'"):
            evaluate(sec, "quantity-reshape0", "%s %s" % (args, dt), setup, "x.reshape(%s)" % args,
                     "_cls(r) + ([] if isinstance(r, unyt_quantity) else [('r', 'not-quantity', _desc(r))])")


# ----------------------------------------------------------------------------------------------
# F. indexing and iteration
def index_forms(shape):
    nd = len(shape)
    if nd == 0:
        return [("[()]", True), ("[...]", True), ("[None]", True), ("[np.newaxis, ...]", True), ("[..., None]", True),
                ("[True]", False), ("[np.True_]", False), ("[False]", False), ("[np.array(True)]", False)]
    n0 = shape[0]
    f = [("[...]", True), ("[:]", True), ("[None]", True), ("[..., None]", True), ("[:, None]", True),
         ("[1:]", True), ("[::2]", True), ("[::-1]", True), ("[:0]", True), ("[0:1]", True), ("[-2:]", True),
         ("[-1:]", True), ("[5:]", True), ("[0]", True), ("[-1]", True), ("[%d]" % max(n0 - 1, 0), True),
         ("[0, None]", True), ("[None, 0]", True), ("[0, ...]", True), ("[..., 0]", True), ("[..., -1]", True),
         ("[[0]]", False), ("[[0, -1]]", False), ("[[0, 0, 0]]", False), ("[np.array([], dtype=int)]", False),
         ("[np.array([0, -1])]", False), ("[np.array([[0], [0]])]", False), ("[np.array(0)]", False),
         ("[np.int64(0)]", True), ("[(0,)]", True), ("[[-1]]", False),
         ("[np.ones(%d, bool)]" % n0, False), ("[np.zeros(%d, bool)]" % n0, False),
         ("[np.arange(%d) == 0]" % n0, False), ("[np.arange(%d) %% 2 == 0]" % n0, False),
         ("[np.ones(%r, bool)]" % (shape,), False), ("[np.zeros(%r, bool)]" % (shape,), False),
         ("[np.asarray(x) > 4]", False), ("[x > x.mean()]" if 0 not in shape else "[x > 0]", False),
         ("[np.asarray(x).real == np.asarray(x).real.max()]" if 0 not in shape else "[x == x]", False)]
    if nd >= 2:
        f += [("[0, 0]", True), ("[-1, -1]", True), ("[:, 0]", True), ("[0, :]", True), ("[:, ::2]", True),
              ("[0:1, 0:1]", True), ("[1:, :1]", True), ("[:, None, 0]", True), ("[None, :, None]", True),
              ("[..., 0, None]", True), ("[[0, -1], [0, -1]]", False), ("[[0, -1], 0]", False),
              ("[0, [0, -1]]", False), ("[:, [0]]", False), ("[[0], :]", False), ("[:, np.array([0, 0])]", False),
              ("[np.array([True] + [False] * %d), 0]" % (n0 - 1), False), ("[0, np.ones(%d, bool)]" % shape[1], False)]
    if nd >= 3:
        f += [("[0, 0, 0]", True), ("[-1, -1, -1]", True), ("[0, ..., 0]", True), ("[:, 0, :]", True),
              ("[0, 0]", True), ("[..., 0, 0]", True), ("[1, 0, ::2]", True), ("[[0, 1], 0, [0, 2]]", False),
              ("[[0, 1], :, [0, 2]]", False), ("[0, :, None, 1]", True)]
    return f


def random_index(shape, rng):
    comps, basic = [], True
    for n in shape:
        c = rng.choice(["int", "int", "slice", "slice", "slice", "fancy", "mask", "full"])
        if c == "int":
            comps.append(str(rng.randrange(-n, n)) if n else "0")
        elif c == "slice":
            a, b = sorted((rng.randrange(-n - 1, n + 2), rng.randrange(-n - 1, n + 2)))
            comps.append(rng.choice([":", "%d:" % a, ":%d" % b, "%d:%d" % (a, b), "::2", "::-1", "%d:%d:2" % (a, b),
                                     "%d:%d" % (a, a + 1)]))
        elif c == "fancy":
            basic = False
            m = rng.randrange(0, 3)
            comps.append("np.array(%r, dtype=int)" % ([rng.randrange(-n, n) for _ in range(m)] if n else []))
        elif c == "mask":
            basic = False
            comps.append("np.array(%r, dtype=bool)" % [rng.random() < 0.5 for _ in range(n)])
        else:
            comps.append(":")
    while comps and comps[-1] == ":" and rng.random() < 0.7:
        comps.pop()
    if rng.random() < 0.3:
        pos = rng.randrange(0, len(comps) + 1)
        if all(c == ":" for c in comps[pos:]):
            comps[pos:] = ["..."]
    for _ in range(rng.choice([0, 0, 1, 2])):
        comps.insert(rng.randrange(0, len(comps) + 1), "None")
    if not comps:
        comps = ["..."]
    return "[" + ", ".join(comps) + "]", basic


def parent_kind(ns, _verdict=None):
    x = ns["x"]
    return "quantity" if isinstance(x, unyt_quantity) else "array0d" if x.shape == () else "array"


def section_index():
    sec = "index"
    k = OFFSETS[0]
    shapes = [(), (1,), (3,), (1, 1), (2, 3), (3, 1), (2, 1, 3), (2, 2, 3), (0,), (0, 3), (5,)]

    def one(shape, kind, dt, src, basic, tag):
        setup = ("x = unyt_array(_arr(%r, %r, %d), 'km', name='xname')\n" % (shape, dt, k) if kind == "A" else
                 "x = unyt_quantity(np.%s(%s), 'km', name='xname')\n" % (np.dtype(dt).name, lit(dt, k)))
        setup += "b = _bare(x)\ntry:\n    e = b%s\nexcept IndexError:\n    e = None" % src
        check = "_idx(r, x, e)"
        if basic:
            check += " + (_mem_view(r, x) if isinstance(e, np.ndarray) and e.ndim >= 1 else [])"
        pk = "quantity" if kind == "Q" else "array0d" if shape == () else "array"
        # a case only exists when NumPy accepts the index
        probe = dict(NS0)
        try:
            exec(comp(setup, "exec"), probe)
        except Exception:
            setup_skips[sec + ":setup"] += 1
            return
        if probe["e"] is None:
            setup_skips[sec + ":numpy-IndexError"] += 1
            return
        evaluate(sec, pk, "%s %s%s %s %s" % (src, kind, shape, dt, tag), setup, "x" + src, check,
                 raises_is_failure=True, sample={"index": "x" + src, "shape": shape}
                 if src == "[..., 0]" and shape == (2, 3) and dt == "float64" else None)

    for shape in shapes:
        for kind in (["Q", "A"] if shape == () else ["A"]):
            for dt in DTYPES:
                for src, basic in index_forms(shape):
                    one(shape, kind, dt, src, basic, "pinned")
    n_random = 4000 if R.thorough else 400
    for i in range(n_random):
        if out_of_time(sec):
            break
        shape = R.rng.choice([s for s in shapes if s != ()])
        src, basic = random_index(shape, R.rng)
        one(shape, "A", R.rng.choice(DTYPES), src, basic, "random")
    # iteration
    for shape in shapes:
        if shape == ():
            continue
        for dt in DTYPES:
            setup = "x = unyt_array(_arr(%r, %r, %d), 'km', name='xname')\nb = _bare(x)" % (shape, dt, k)
            for site, ex in (("for", "[e for e in x]"), ("iter", "list(iter(x))"), ("list", "list(x)"),
                             ("tuple-unpack", "tuple(x)"), ("reversed", "list(reversed(x))[::-1]"),
                             ("nested", "[e for row in x for e in row]"), ("zip", "[a for a, _ in zip(x, x)]"),
                             ("enumerate-getitem", "[x[i] for i in range(len(x))]")):
                bare = "list(b.reshape((-1,) + b.shape[2:]))" if site == "nested" else "list(b)"
                check = ("[f for i, (ri, ei) in enumerate(zip(r, %s)) for f in _idx(ri, x, ei)] + "
                         "([] if len(r) == len(%s) else [('r', 'length', '%%d items' %% len(r))])" % (bare, bare))
                evaluate("iter", site, "%s %s" % (shape, dt), setup, ex, check)


# ----------------------------------------------------------------------------------------------
# G. memory: views and copies
OTHER_UNIT = {"m": "km", "km": "m", "g": "kg", "cm": "m", "G": "T", "T": "G", "A": "statA", "statA": "A",
              "degC": "K", "K": "degC", "erg": "J", "dimensionless": "percent"}


def section_memory():
    k = OFFSETS[0]
    shapes = [(), (1,), (3,), (4,), (1, 1), (2, 3), (2, 1, 3), (0,), (0, 3)]
    views = ["x.d", "x.ndview", "x.ndarray_view()", "x.view()", "x.view(np.ndarray)", "x.reshape(-1)",
             "x.reshape(x.shape + (1,))", "x.reshape((1,) + x.shape)", "np.reshape(x, -1)", "x.reshape(x.shape)",
             "x.ravel()", "np.ravel(x)", "x.T", "x.transpose()", "np.transpose(x)", "x[...]", "x[None]",
             "np.expand_dims(x, 0)", "np.squeeze(x)", "x.squeeze()", "np.atleast_1d(x)", "unyt_array(x)",
             "np.asarray(x)", "np.asanyarray(x)", "x.real", "x[:]", "x[::2]", "x[::-1]", "x[0:1]", "x[-1:]", "x[1:]",
             "np.swapaxes(x, 0, -1)", "x.swapaxes(0, -1)", "np.moveaxis(x, 0, -1)", "np.flip(x)", "x[:, 0]", "x[0]",
             "x[..., 0]", "x[:, ::2]", "x[..., None]", "x.reshape(x.shape[::-1])", "x.reshape(-1, 1)",
             "x.T.T", "x.mT", "x[1:].reshape(-1)", "x.T[...]", "x.imag"]
    for shape in shapes:
        for kind in (["Q", "A"] if shape == () else ["A"]):
            for dt in DTYPES:
                if out_of_time("mem"):
                    return
                for unit in ("m", "km", "g", "cm", "G", "T", "A", "degC", "K", "erg", "dimensionless"):
                    if unit not in ("m", "km") and dt not in ("float64", "int64"):
                        continue
                    setup = "x = " + operand(kind, shape, dt, unit, k)
                    fine = "%s%s %s %s" % (kind, shape, dt, unit)
                    if unit == "m":
                        for ex in views:
                            if ex == "x.imag" and np.dtype(dt).kind != "c":
                                continue
                            if ex == "np.flip(x)" and shape == ():
                                continue   # NumPy returns a fresh 0-d copy
                            if ex == "x[0]" and len(shape) < 2:
                                continue   # an element, not a slice: NumPy returns a scalar
                            evaluate("mem-view", ex, fine, setup, ex, "_mem_view(r, x)",
                                     sample={"view": ex, "x": setup} if ex == "x.T" and shape == (2, 3)
                                     and dt == "float64" else None)
                    other = OTHER_UNIT[unit]
                    copies = ["x.v", "x.value", "x.to_ndarray()", "x.to_value()", "x.to_value(%r)" % unit,
                              "x.to_value(x.units)", "x.to_value(%r)" % other, "x.copy()", "x.copy(order='K')",
                              "np.copy(x)", "np.copy(x, subok=True)", "_copy.copy(x)", "_copy.deepcopy(x)",
                              "x.in_units(%r)" % unit, "x.in_units(x.units)", "x.in_units(%r)" % other,
                              "x.to(%r)" % unit, "x.to(x.units)", "x.to(%r)" % other, "x.in_base()",
                              "x.in_base('mks')", "x.in_base('cgs')", "x.in_base('galactic')", "x.in_cgs()",
                              "x.in_mks()", "np.array(x)", "np.array(x, subok=True)", "x.flatten()",
                              "x.astype(x.dtype)", "x.astype('complex128')", "x.to_equivalent(%r, 'spectral')" % unit,
                              "x.to_equivalent('Hz', 'spectral')", "x.to_equivalent(%r, 'thermal')" % unit,
                              "x.to(%r, 'spectral')" % unit, "x.in_units(%r, equivalence='thermal')" % unit,
                              "+x", "x * 1", "x / 1", "x.tolist()", "_pickle.loads(_pickle.dumps(x))",
                              "unyt_array(x.v, x.units)", "x.to_value().copy()"]
                    for ex in copies:
                        site = ex.replace(repr(unit), "<same>").replace(repr(other), "<other>")
                        evaluate("mem-copy", site, fine, setup, ex, "_mem_copy(r, x)")


# ----------------------------------------------------------------------------------------------
# H. construction
def section_build():
    k = OFFSETS[0]
    for shape in F_SHAPES:
        for dt in DTYPES:
            base = "b = _arr(%r, %r, %d)" % (shape, dt, k)
            variants = [("contiguous", base)]
            if len(shape) >= 1 and 0 not in shape:
                variants.append(("strided", "b = _arr(%r, %r, %d)[::2]" % (tuple(2 * s for s in shape[:1]) + shape[1:], dt, k)))
            if len(shape) >= 2:
                variants.append(("transposed", "b = _arr(%r, %r, %d).T" % (shape[::-1], dt, k)))
            for vname, setup in variants:
                for site, ex in (("unyt_array(ndarray,str)", "unyt_array(b, 'm')"),
                                 ("unyt_array(ndarray,Unit)", "unyt_array(b, Unit('m'))"),
                                 ("unyt_array(ndarray)", "unyt_array(b)"),
                                 ("unyt_array(ndarray,units=)", "unyt_array(b, units='m')"),
                                 ("unyt_array(ndarray,name=)", "unyt_array(b, 'm', name='n')"),
                                 ("unyt_array(ndarray,registry=)", "unyt_array(b, 'm', registry=unyt.UnitRegistry())"),
                                 ("unyt_array(ndarray,bypass)", "unyt_array(b, Unit('m'), bypass_validation=True)"),
                                 ("unyt_quantity(ndarray0d)", "unyt_quantity(b, 'm')")):
                    if site.startswith("unyt_quantity") and shape != ():
                        continue
                    check = "_mem_view(r, b) + ([] if isinstance(r, unyt_array) and r.shape == b.shape else " \
                            "[('r', 'shape', _desc(r))])"
                    if site.startswith("unyt_quantity"):
                        check += " + _cls(r)"
                    evaluate("build-view", site, "%s %s %s" % (shape, dt, vname), setup, ex, check)
                for site, ex in (("ndarray*unit", "b * Unit('m')"), ("unit*ndarray", "Unit('m') * b"),
                                 ("ndarray*compound-unit", "b * (Unit('km') / Unit('s'))"),
                                 ("ndarray/unit", "b / Unit('m')"), ("ndarray*unit*unit", "b * Unit('m') * Unit('s')"),
                                 ("ndarray*unit-symbol", "b * unyt.m"), ("unit-symbol*ndarray", "unyt.km * b")):
                    evaluate("build-copy", site, "%s %s %s" % (shape, dt, vname), setup, ex, "_cls(r) + _mem_copy(r, b)")
                for site, ex in (("unyt_array*unit", "x * Unit('s')"), ("unit*unyt_array", "Unit('s') * x"),
                                 ("unyt_array/unit", "x / Unit('s')")):
                    evaluate("build-copy", site, "%s %s %s" % (shape, dt, vname), setup + "\nx = unyt_array(b, 'm')",
                             ex, "_cls(r) + _mem_copy(r, x)")
    # lists of quantities in mixed units
    groups = [("km", "m"), ("m", "km"), ("cm", "m", "km"), ("g", "kg"), ("s", "ms", "minute"), ("J", "erg"),
              ("km/s", "m/s"), ("m", "m"), ("N", "dyn", "N"), ("K", "R"), ("m", "cm", "m", "km"), ("km",),
              ("hr", "s"), ("Msun", "g"), ("pc", "ly", "AU"), ("m**2", "cm**2"), ("rad", "degree")]
    evaluate("build-list", "pinned-km-m", "[1 km, 500 m]",
             "e = [unyt_quantity(1, 'km'), unyt_quantity(500, 'm')]", "unyt_array(e)",
             "_coerced(r, e) + ([] if list(np.asarray(r)) == [1.0, 0.5] and str(r.units) == 'km' else "
             "[('r', 'values', repr(r))])", sample={"list": "[1*km, 500*m]", "expected": "[1, 0.5] km"})
    for g in groups:
        for form in ("float", "int", "array1d", "array0d", "array2"):
            for cont in ("list", "tuple"):
                for kk in OFFSETS:
                    elems = []
                    for i, u in enumerate(g):
                        if form == "float":
                            elems.append("unyt_quantity(%r, %r)" % (1.25 + i + kk, u))
                        elif form == "int":
                            elems.append("unyt_quantity(%d, %r)" % (2 + i + kk, u))
                        elif form == "array1d":
                            elems.append("unyt_array(_arr((3,), 'float64', %d), %r)" % (i + kk, u))
                        elif form == "array0d":
                            elems.append("unyt_array(np.array(%r), %r)" % (1.5 + i + kk, u))
                        else:
                            elems.append("unyt_array(_arr((1,), 'int64', %d), %r)" % (i + kk, u))
                    src = "[%s]" % ", ".join(elems)
                    if cont == "tuple":
                        src = "tuple(%s)" % src
                    for site, ex in (("unyt_array(list)", "unyt_array(e)"),
                                     ("unyt_array(list,registry=)", "unyt_array(e, registry=e[0].units.registry)")):
                        evaluate("build-list", site, "%s %s %s k%d" % ("/".join(g), form, cont, kk), "e = " + src, ex,
                                 "_coerced(r, e)", raises_is_failure=True)
    for g in [("km", "s"), ("m", "g", "m"), ("m", "dimensionless"), ("J", "N"), ("s", "Hz"), ("m", "m", "m**2"),
              ("K", "m"), ("dimensionless", "m")]:
        for cont in ("list", "tuple"):
            src = "[%s]" % ", ".join("unyt_quantity(%r, %r)" % (1.5 + i, u) for i, u in enumerate(g))
            if cont == "tuple":
                src = "tuple(%s)" % src
            evaluate("build-list", "incommensurable", "%s %s" % ("/".join(g), cont), "e = " + src,
                     "_must_raise(lambda: unyt_array(e), IterableUnitCoercionError)", "r")


SECTIONS = [("ctor", section_ctor), ("build", section_build), ("mem", section_memory), ("index", section_index),
            ("unitmul", section_unitmul), ("op", section_operators), ("func", section_functions),
            ("ufunc", section_ufuncs)]
timing = {}
for sname, fn in SECTIONS:
    t = R.elapsed()
    try:
        fn()
    except Exception as e:  # noqa  driver problem
        import traceback
        R.notes.append("driver error in section %s: %r %s" % (sname, e, traceback.format_exc()[-300:]))
    timing[sname] = round(R.elapsed() - t, 1)

if DEBUG:
    for (sec_, en, msg), (su, ex) in sorted(raise_samples.items()):
        print("RAISE", sec_, en, msg, "|", su.replace("\n", "; ")[:150], "|", ex, file=sys.stderr)
R.notes.append("section wall times (s): %s" % timing)
if deadline_hit:
    R.notes.append("time budget reached; truncated sections: %s" % deadline_hit)
R.notes.append("result shape classes of unyt results per section: %s"
               % {s: dict(c) for s, c in shape_classes.items()})
R.notes.append("accepted raises per section: %s" % {s: dict(c) for s, c in raised.items()})
R.notes.append("cases skipped because the NumPy side is undefined: %s" % dict(setup_skips))
for key, sites in sorted(lumped.items()):
    R.notes.append("%s witnesses (%d): %s" % (key, len(sites), ", ".join(sorted(sites))))
never = sorted(bare_results["func"] - unyt_results["func"])
R.notes.append("catalogue entries that never returned a unyt object (bare by design or always raising): %s"
               % ", ".join(never))
R.finish()
