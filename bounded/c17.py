"""C17 bounded stand-in: conversions and mixed-unit arithmetic never truncate to integers.

dtype x route x unit pair x value set (small values, dtype limits, the first integers the
target float cannot hold) x scalar/array on the real package; oracle = exact rational
conversion (Fraction over the unit table's scale/offset) rounded to the required float type."""
import math
import os
import sys
import warnings
from fractions import Fraction

sys.path.insert(0, os.path.dirname(os.path.abspath(__file__)))
from common import Run, replay_script  # noqa: E402

import numpy as np  # noqa: E402
import unyt  # noqa: E402
from unyt import Unit, unyt_array, unyt_quantity  # noqa: E402

import lib_c18_ops as L  # noqa: E402
import lib_c17_equiv as LE  # noqa: E402

R = Run("C17",
        "dtypes int8..int64, uint8..uint64, float16/32/64, longdouble, complex64/128 x conversion routes (to, in_units, "
        "to_value, in_base/in_cgs/in_mks, convert_to_units, convert_to_base/cgs/mks, to_equivalent/convert_to_equivalent) x "
        "unit pairs (exact scale, inexact scale, tiny scale, huge scale, offset temperatures, CGS<->SI EM) and mixed-unit binary "
        "ufuncs (add, subtract, 6 comparisons, maximum/minimum/fmax/fmin, hypot, remainder/mod/fmod, floor_divide; integer "
        "operand first or second, partner integer or float64; copy form and out=a) x values (small, dtype min/max, 2**mant+1, "
        "-(2**mant+1)) x scalar/array: result dtype = float of the same item size (>= 16 bit) for integers, unchanged width "
        "for float16/32/64/longdouble and complex, or the call raises; values within 4 ulp (of the result type) of the exact "
        "rational conversion; copy and in-place twins agree on dtype and values; RuntimeWarning for integers beyond 2**mantissa. "
        "Section equivalence-integer: every registered equivalence x every ordered pair of its member dimensions x 8 integer dtypes x "
        "copying routes (to, in_units, to_equivalent, to_value with an equivalence; keyword variants mu/gamma) x 2 (thorough 3) source and "
        "target units x arrays/scalars holding dtype max, isqrt(max)+1.., first n with n**4 > max, small values and negative twins "
        "(every square / fourth power leaves the integer dtype): result = the same call on the float64 image of the data (1e-12 rel) and "
        "= the defining formula on SI magnitudes (1e-9 rel x condition), requested unit, float dtype, no raise. "
        "Non-trivial = integer, narrow-float or complex data.",
        "finite grid (quick: every dtype x every route x 1 seeded small-value draw + all limit values; thorough: 8 seeded draws; "
        "equivalence-integer: quick 2x2 units and 1 draw, thorough 3x3 units, 4 draws, positional / Unit-object call forms)")

seen = set()
SEED = R.args.seed
DRAWS = 8 if R.thorough else 1
ALL_DT = L.INT_DT + L.FLT_DT + L.CPX_DT
MANT = {2: 11, 4: 24, 8: 53, 16: 64}


def short(dt):
    d = np.dtype(dt)
    return d.kind + str(d.itemsize)


FAMILY = {"to": "in_units", "to-Unit": "in_units", "to_value": "in_units", "in_cgs": "in_base", "in_mks": "in_base",
          "convert_to_cgs": "convert_to_base", "convert_to_mks": "convert_to_base", "to-equivalence": "to_equivalent",
          "to_value-equivalence": "to_equivalent", "convert_to_units-equivalence": "convert_to_equivalent",
          "add": "add/subtract", "subtract": "add/subtract", "maximum": "extrema", "minimum": "extrema", "fmax": "extrema", "fmin": "extrema",
          "remainder": "remainder-like", "mod": "remainder-like", "fmod": "remainder-like", "floor_divide": "remainder-like",
          "less": "comparison", "less_equal": "comparison", "greater": "comparison", "greater_equal": "comparison", "equal": "comparison",
          "not_equal": "comparison", "add-first-operand": "binary", "add-second-operand": "binary"}
DTCLASS = {"i1": "int8", "u1": "int8", "i2": "int16", "u2": "int16", "i4": "int32", "u4": "int32", "i8": "int64", "u8": "int64",
           "f2": "float16", "f4": "float32", "f8": "float64", "f16": "longdouble", "c8": "complex64", "c16": "complex128"}


def site(key):
    """one key per defect site: routes that share an implementation and signed/unsigned twins are merged"""
    parts = key[4:-1].split(":")
    out = []
    for i, p_ in enumerate(parts):
        if "+" in p_ and all(t in DTCLASS for t in p_.split("+")):
            p_ = "+".join(DTCLASS[t] for t in p_.split("+"))
        elif p_ in DTCLASS:
            p_ = DTCLASS[p_]
        elif p_ in FAMILY and i <= 1:
            p_ = FAMILY[p_]
        out.append(p_)
    return "C17[" + ":".join(out) + "]"


def fail(key, what, body):
    key = site(key)
    if key in seen:
        return
    seen.add(key)
    R.fail(key, what, replay_script(PRE + body))


PRE = '''
from fractions import Fraction
def mk(vals, dt, unit, scalar):
    a = np.array(vals, dtype=dt)
    return unyt.unyt_quantity(a[0], unit) if scalar else unyt.unyt_array(a, unit)
def frac(v):
    if isinstance(v, Fraction):
        return v
    if isinstance(v, (int, np.integer)):
        return Fraction(int(v))
    n, d = v.as_integer_ratio()
    return Fraction(int(n), int(d))
def ffloat(e):
    try:
        return float(e)
    except OverflowError:
        return float('inf') if e > 0 else -float('inf')
EM = {("C", "statC"): Fraction(2997924580), ("T", "G"): Fraction(10000)}
def exact(x, ua, ub):
    if (ua, ub) in EM:      # CGS <-> SI electromagnetic pairs: documented factor, the dimensions differ
        return frac(x) * EM[(ua, ub)]
    ua, ub = unyt.Unit(ua), unyt.Unit(ub)
    sa, sb = Fraction(float(ua.base_value)), Fraction(float(ub.base_value))
    oa, ob = Fraction(float(ua.base_offset)), Fraction(float(ub.base_offset))
    return (frac(x) - oa) * sa / sb + ob
def err_ulps(v, e, dt, scale=None):
    # |v - e| in units of half the spacing of dtype dt at max(|e|, scale); e: Fraction
    fi = np.finfo(np.dtype(dt))
    # the unit table holds float64 scales: no result can be required to be better than float64
    eps, tiny, fmax = max(frac(fi.eps), Fraction(1, 2 ** 52)), frac(fi.smallest_subnormal), frac(fi.max)
    sc = max(abs(e), frac(scale) if scale else 0)
    sp = max(sc * eps / 2, tiny)
    if not np.isfinite(v):
        return 0.0 if abs(e) > fmax * (1 - eps) else float('inf')
    return ffloat(abs(frac(v) - e) / sp)
'''
exec(PRE)


def required_dtype(dt):
    return L.float_for(dt)


def mk(vals, dt, unit, scalar):
    a = np.array(vals, dtype=dt)
    return unyt_quantity(a[0], unit) if scalar else unyt_array(a, unit)


def pyvals(vals, dt):
    """the numbers actually stored (python int / Fraction / complex) after the dtype cast"""
    a = np.array(vals, dtype=dt)
    k = a.dtype.kind
    if k in "iu":
        return [int(v) for v in a]
    if k == "f":
        return [frac(v) for v in a]
    return [complex(v) for v in a]


ORDINARY = ("small", "fine", "pinned")


def value_sets(dt, rng):
    """[(tag, values)]"""
    d = np.dtype(dt)
    out = []
    if d.kind in "iu":
        ii = np.iinfo(d)
        lo = 1 if d.kind == "u" else -9
        small = [rng.randint(lo, 9) or 3 for _ in range(3)]
        out.append(("small", small))
        out.append(("max", [ii.max, ii.max - 1, 1]))
        if d.kind == "i":
            out.append(("min", [ii.min, ii.min + 1, -1]))
        m = MANT[max(2, d.itemsize)]
        big = 2 ** m + 1
        if big <= ii.max:
            out.append(("beyond-mantissa", [big, 5, 2 ** m + 3]))
            if d.kind == "i":
                out.append(("beyond-mantissa-negative", [-big, 5, -(2 ** m) - 3]))
    elif d.kind == "f":
        fi = np.finfo(d if d.itemsize <= 8 else np.dtype("float64"))     # values must be python floats (replays)
        out.append(("small", [rng.randint(-40, 40) / 8.0 or 0.5 for _ in range(3)]))
        out.append(("pinned", [0.5, -0.25, 0.125]))
        out.append(("fine", [1 + float(fi.eps), 1 - float(fi.eps) / 2, float(fi.tiny) * 8]))
        out.append(("large", [float(fi.max) / 4, -float(fi.max) / 1024, 3.0]))
    else:
        out.append(("small", [complex(rng.randint(-40, 40) / 8.0, rng.randint(1, 40) / 8.0) for _ in range(3)]))
        fi = np.finfo(d)
        out.append(("fine", [complex(1 + float(fi.eps), 1 - float(fi.eps) / 2), complex(0.0, 3.0), complex(2.5, 0.0)]))
    return out


# unit pairs: (from, to, pair class)
PAIRS = [
    ("m", "cm", "scale-exact"), ("km", "m", "scale-exact"), ("cm", "m", "scale-inexact"), ("inch", "cm", "scale-inexact"),
    ("hr", "s", "scale-exact"), ("g", "kg", "scale-inexact"), ("erg", "J", "scale-tiny"), ("Mpc", "cm", "scale-huge"),
    ("degC", "K", "offset"), ("K", "degC", "offset"), ("degF", "degC", "offset"), ("degC", "degF", "offset"),
    ("C", "statC", "em"), ("T", "G", "em"), ("m", "m", "identity"),
]
# base-unit routes: (from unit, copy method, in-place method, resulting unit)
BASE = [("km", "in_base()", "convert_to_base()", "m"), ("km", "in_cgs()", "convert_to_cgs()", "cm"), ("g", "in_mks()", "convert_to_mks()", "kg"),
        ("g", "in_base('mks')", "convert_to_base('mks')", "kg"), ("hr", "in_base('cgs')", "convert_to_base('cgs')", "s"),
        ("degC", "in_base()", "convert_to_base()", "K"), ("erg", "in_mks()", "convert_to_mks()", "J"), ("J", "in_cgs()", "convert_to_cgs()", "erg")]


def check_values(key, what, body, got, xs, ua, ub, rdt, tol=4.0):
    """got: bare array (same length as xs)"""
    A, B = Unit(ua), Unit(ub)
    ratio = EM[(ua, ub)] if (ua, ub) in EM else Fraction(float(A.base_value)) / Fraction(float(B.base_value))
    for x, g in zip(xs, np.atleast_1d(got)):
        if isinstance(x, complex):
            parts = [(Fraction(x.real), g.real, True), (Fraction(x.imag), g.imag, False)]
        else:
            parts = [(x, g, True)]
        for xv, gv, is_real in parts:
            if A.base_offset or B.base_offset:
                if is_real:
                    e = exact(xv, ua, ub)
                else:
                    continue        # the imaginary part of an offset conversion is not defined by the statement
                scale = max(abs(xv * ratio), abs(Fraction(float(A.base_offset)) * ratio), abs(Fraction(float(B.base_offset))))
            else:
                e = xv * ratio
                scale = None
            u = err_ulps(gv, e, rdt if np.dtype(rdt).kind != "c" else ("f%d" % (np.dtype(rdt).itemsize // 2)), scale)
            if u > tol:
                fail(key, "%s: value %r for input %s, exact %s (%.3g ulp of %s)" % (what, gv, xv, ffloat(e), u, rdt), body)
                return False
    return True


def run_conversions():
    import random
    for dt in ALL_DT:
        d = np.dtype(dt)
        req = required_dtype(dt)
        nontrivial = d.kind in "iuc" or d.itemsize != 8
        for draw in range(DRAWS):
            rng = random.Random("%d|conv|%s|%d" % (SEED, dt, draw))
            for tag, vals in value_sets(dt, rng):
                if draw and tag != "small":
                    continue
                xs = pyvals(vals, dt)
                for ua, ub, pclass in PAIRS:
                    for scalar in (False, True):
                        sc = "scalar" if scalar else "array"
                        n = 1 if scalar else len(vals)
                        copies = {}
                        for route, expr in (("to", "q.to(%r)" % ub), ("in_units", "q.in_units(%r)" % ub), ("to_value", "q.to_value(%r)" % ub),
                                            ("to-Unit", "q.to(unyt.Unit(%r))" % ub)):
                            kbase = "C17[%s:%s:%s" % (route, pclass, short(dt))
                            R.case("%s:%s:%s]" % (kbase, tag, sc), nontrivial=nontrivial)
                            q = mk(vals, dt, ua, scalar)
                            body0 = "q = mk(%r, %r, %r, %r)\nr = %s\n" % (vals, dt, ua, scalar, expr)
                            try:
                                with np.errstate(all="ignore"):
                                    r = eval(expr, {"q": q, "unyt": unyt})
                            except Exception as e:  # noqa  raising is allowed by the statement
                                copies[route] = ("exc", e)
                                continue
                            rb = np.asarray(r)
                            copies[route] = ("ok", rb)
                            # dtype
                            if route == "to_value" and scalar:
                                ok = isinstance(r, float) if d.kind != "c" else True
                                if not ok:
                                    fail(kbase + ":scalar-type]", "%s on %s scalar returned %s" % (expr, dt, type(r).__name__),
                                         body0 + "print(type(r)); sys.exit(0 if isinstance(r, float) else 1)\n")
                                rdt = req if d.itemsize <= 8 or d.kind == "c" else np.dtype("float64")
                                if d.kind == "c":
                                    continue    # float(complex) discards the imaginary part with a warning: C16 territory
                            else:
                                rdt = rb.dtype
                                if rdt != req:
                                    asp = "dtype-wider" if (rdt.kind == req.kind and rdt.itemsize > req.itemsize) else "dtype"
                                    fail("C17[%s:%s:%s]" % (route, short(dt), asp), "%s on %s data gives dtype %s, required %s" % (expr, dt, rdt, req),
                                         body0 + "print(np.asarray(r).dtype); sys.exit(0 if np.asarray(r).dtype == np.dtype(%r) else 1)\n" % req.str)
                            if route != "to_value" and hasattr(r, "units") and not (r.units == Unit(ub)):
                                fail(kbase + ":units]", "%s: result unit %s" % (expr, r.units), body0 + "sys.exit(0 if r.units == unyt.Unit(%r) else 1)\n" % ub)
                            check_values(kbase + ":values:%s]" % ("ordinary" if tag in ORDINARY else "limits"),
                                         "%s on %s %s %s" % (expr, dt, vals[:n], ua), body0 +
                                         "bad = [x for x, g in zip(np.array(%r, dtype=%r).tolist(), np.atleast_1d(np.asarray(r)).tolist()) "
                                         "if not isinstance(x, complex) and err_ulps(g, exact(Fraction(x), %r, %r), %r, %r) > 4]\n"
                                         "print(np.asarray(r), bad); sys.exit(1 if bad else 0)\n" % (
                                             vals[:n], dt, ua, ub, str(rdt) if np.dtype(rdt).kind != "c" else "f%d" % (np.dtype(rdt).itemsize // 2),
                                             max(abs(float(Unit(ua).base_offset)) * float(Unit(ua).base_value) / float(Unit(ub).base_value),
                                                 abs(float(Unit(ub).base_offset)))),
                                         rb, xs[:n], ua, ub, rdt)
                        # in place twin
                        kbase = "C17[convert_to_units:%s:%s" % (pclass, short(dt))
                        R.case("%s:%s:%s]" % (kbase, tag, sc), nontrivial=nontrivial)
                        q = mk(vals, dt, ua, scalar)
                        body0 = "q = mk(%r, %r, %r, %r)\n" % (vals, dt, ua, scalar)
                        try:
                            with np.errstate(all="ignore"):
                                q.convert_to_units(ub)
                            st = "ok"
                        except Exception as e:  # noqa
                            st = "exc"
                            exc = e
                        cst, cval = copies.get("to", ("exc", None))
                        if st == "exc":
                            if d.kind in "iu" and d.itemsize == 1:
                                continue        # no 1-byte float: raising is the documented outcome
                            if cst == "ok":
                                fail(kbase + ":raises-while-copy-works]", "convert_to_units(%r) on %s raised %r but to() works" % (ub, dt, exc),
                                     body0 + "q.to(%r)\ntry:\n    q.convert_to_units(%r)\nexcept Exception as e:\n    print(repr(e)); sys.exit(1)\n" % (ub, ub))
                            continue
                        qb = np.asarray(q)
                        want = req if not (d.kind in "iu" and d.itemsize == 1) else None
                        if want is not None and qb.dtype != want:
                            fail("C17[convert_to_units:%s:dtype]" % short(dt), "convert_to_units(%r) leaves dtype %s, required %s" % (ub, qb.dtype, want),
                                 body0 + "q.convert_to_units(%r)\nprint(q.dtype); sys.exit(0 if q.dtype == np.dtype(%r) else 1)\n" % (ub, want.str))
                        check_values(kbase + ":values:%s]" % ("ordinary" if tag in ORDINARY else "limits"),
                                     "convert_to_units(%r) on %s %s %s" % (ub, dt, vals[:n], ua), body0 + "q.convert_to_units(%r)\nr = q\n" % ub +
                                     "bad = [x for x, g in zip(np.array(%r, dtype=%r).tolist(), np.atleast_1d(np.asarray(r)).tolist()) "
                                     "if not isinstance(x, complex) and err_ulps(g, exact(Fraction(x), %r, %r), %r, %r) > 4]\n"
                                     "print(np.asarray(r), bad); sys.exit(1 if bad else 0)\n" % (
                                         vals[:n], dt, ua, ub, str(qb.dtype) if qb.dtype.kind != "c" else "f%d" % (qb.dtype.itemsize // 2),
                                         max(abs(float(Unit(ua).base_offset)) * float(Unit(ua).base_value) / float(Unit(ub).base_value),
                                             abs(float(Unit(ub).base_offset)))),
                                     qb, xs[:n], ua, ub, qb.dtype)
                        if cst == "ok":
                            agree(kbase, "to(%r)" % ub, "convert_to_units(%r)" % ub, cval, qb, body0 + "r = q.to(%r)\nq.convert_to_units(%r)\n" % (ub, ub), dt)


def agree(kbase, cname, iname, c, i, body, dt):
    """copy result c and in-place result i (bare arrays): same dtype and values (4 ulp)"""
    if c.dtype != i.dtype:
        fail("C17[%s:%s:copy-inplace-dtype]" % (kbase.split("[")[1].split(":")[0], short(dt)),
             "%s gives %s but %s gives %s" % (cname, c.dtype, iname, i.dtype),
             body + "print(np.asarray(r).dtype, q.dtype); sys.exit(0 if np.asarray(r).dtype == q.dtype else 1)\n")
    with np.errstate(all="ignore"):
        a = np.atleast_1d(c).astype("complex256" if c.dtype.kind == "c" else "longdouble")
        b = np.atleast_1d(i).astype(a.dtype)
        narrow = c.dtype if c.dtype.itemsize <= i.dtype.itemsize else i.dtype
        eps = float(np.finfo(narrow).eps)
        fin = np.isfinite(a) & np.isfinite(b)
        bad = (~fin & ~((np.isnan(a) & np.isnan(b)) | (a == b))).any()
        if fin.any():
            sc = np.maximum(np.abs(a[fin]), np.abs(b[fin]))
            bad = bad or bool((np.abs(a[fin] - b[fin]) > 4 * eps * np.maximum(sc, float(np.finfo(narrow).tiny))).any())
    if bad:
        fail(kbase + ":copy-inplace-values]", "%s = %s but %s = %s" % (cname, c, iname, i),
             body + "a = np.atleast_1d(np.asarray(r)).astype('longdouble' if q.dtype.kind != 'c' else 'complex256'); b = np.atleast_1d(np.asarray(q)).astype(a.dtype)\n"
             "eps = float(np.finfo(%r).eps)\nprint(a, b)\n"
             "sys.exit(1 if not np.allclose(a, b, rtol=4 * eps, atol=0, equal_nan=True) else 0)\n" % narrow.str)


def run_base():
    import random
    for dt in ALL_DT:
        d = np.dtype(dt)
        req = required_dtype(dt)
        nontrivial = d.kind in "iuc" or d.itemsize != 8
        rng = random.Random("%d|base|%s" % (SEED, dt))
        for tag, vals in value_sets(dt, rng):
            xs = pyvals(vals, dt)
            for ua, cm, im, ub in BASE:
                pclass = "offset" if Unit(ua).base_offset else "scale"
                for scalar in (False, True):
                    n = 1 if scalar else len(vals)
                    route = cm.split("(")[0]
                    kbase = "C17[%s:%s:%s" % (route, pclass, short(dt))
                    R.case("%s:%s:%s:%s]" % (kbase, ua, tag, scalar), nontrivial=nontrivial)
                    q = mk(vals, dt, ua, scalar)
                    body0 = "q = mk(%r, %r, %r, %r)\n" % (vals, dt, ua, scalar)
                    cres = None
                    try:
                        with np.errstate(all="ignore"):
                            r = eval("q." + cm, {"q": q})
                        cres = np.asarray(r)
                    except Exception:  # noqa
                        pass
                    if cres is not None:
                        if cres.dtype != req:
                            asp = "dtype-wider" if (cres.dtype.kind == req.kind and cres.dtype.itemsize > req.itemsize) else "dtype"
                            fail("C17[%s:%s:%s]" % (route, short(dt), asp), "q.%s on %s data gives dtype %s, required %s" % (cm, dt, cres.dtype, req),
                                 body0 + "r = q.%s\nprint(r.dtype); sys.exit(0 if r.dtype == np.dtype(%r) else 1)\n" % (cm, req.str))
                        if not (r.units == Unit(ub)):
                            fail(kbase + ":units]", "q.%s: result unit %s, expected %s" % (cm, r.units, ub), body0 + "r = q.%s\nsys.exit(0 if r.units == unyt.Unit(%r) else 1)\n" % (cm, ub))
                        check_values(kbase + ":values:%s]" % ("ordinary" if tag in ORDINARY else "limits"),
                                     "q.%s on %s %s %s" % (cm, dt, vals[:n], ua), body0 + "r = q.%s\n" % cm + VALBODY % (
                                         vals[:n], dt, ua, ub, str(cres.dtype) if cres.dtype.kind != "c" else "f%d" % (cres.dtype.itemsize // 2), offscale(ua, ub)),
                                     cres, xs[:n], ua, ub, cres.dtype)
                    q2 = mk(vals, dt, ua, scalar)
                    try:
                        with np.errstate(all="ignore"):
                            eval("q." + im, {"q": q2})
                    except Exception as e:  # noqa
                        if not (d.kind in "iu" and d.itemsize == 1) and cres is not None:
                            fail("C17[%s:%s:raises-while-copy-works]" % (im.split("(")[0], short(dt)), "q.%s raised %r but q.%s works" % (im, e, cm),
                                 body0 + "q.%s\ntry:\n    q.%s\nexcept Exception as e:\n    print(repr(e)); sys.exit(1)\n" % (cm, im))
                        continue
                    ires = np.asarray(q2)
                    iroute = im.split("(")[0]
                    if not (d.kind in "iu" and d.itemsize == 1) and ires.dtype != req:
                        fail("C17[%s:%s:dtype]" % (iroute, short(dt)), "q.%s leaves dtype %s, required %s" % (im, ires.dtype, req),
                             body0 + "q.%s\nprint(q.dtype); sys.exit(0 if q.dtype == np.dtype(%r) else 1)\n" % (im, req.str))
                    check_values("C17[%s:%s:%s:values:%s]" % (iroute, pclass, short(dt), "ordinary" if tag in ORDINARY else "limits"),
                                 "q.%s on %s %s %s" % (im, dt, vals[:n], ua), body0 + "q.%s\nr = q\n" % im + VALBODY % (
                                     vals[:n], dt, ua, ub, str(ires.dtype) if ires.dtype.kind != "c" else "f%d" % (ires.dtype.itemsize // 2), offscale(ua, ub)),
                                 ires, xs[:n], ua, ub, ires.dtype)
                    if cres is not None:
                        agree("C17[%s:%s:%s" % (iroute, pclass, short(dt)), "q." + cm, "q." + im, cres, ires, body0 + "r = q.%s\nq.%s\n" % (cm, im), dt)


VALBODY = ("bad = [x for x, g in zip(np.array(%r, dtype=%r).tolist(), np.atleast_1d(np.asarray(r)).tolist()) "
           "if not isinstance(x, complex) and err_ulps(g, exact(Fraction(x), %r, %r), %r, %r) > 4]\n"
           "print(np.asarray(r), bad); sys.exit(1 if bad else 0)\n")


def offscale(ua, ub):
    return max(abs(float(Unit(ua).base_offset)) * float(Unit(ua).base_value) / float(Unit(ub).base_value), abs(float(Unit(ub).base_offset)))


# ---------------------------------------------------------------------------- equivalence routes
def equiv_table():
    import unyt.physical_constants as pc
    kb = Fraction(float(pc.kboltz.in_mks().v))          # J/K
    c = Fraction(float(pc.clight.in_mks().v))           # m/s
    kev = Fraction(float(Unit("keV").base_value))
    erg = Fraction(float(Unit("erg").base_value))
    return [
        ("thermal", "K", "J", lambda x: x * kb), ("thermal", "K", "keV", lambda x: x * kb / kev),
        ("mass_energy", "g", "erg", lambda x: x * Fraction(1, 1000) * c * c / erg), ("mass_energy", "kg", "J", lambda x: x * c * c),
        ("spectral", "m", "Hz", lambda x: c / x), ("schwarzschild", "km", "m", lambda x: x * 1000),   # same dimensions: plain conversion
    ]


def run_equivalence():
    import random
    for dt in ALL_DT:
        d = np.dtype(dt)
        req = required_dtype(dt)
        rng = random.Random("%d|equiv|%s" % (SEED, dt))
        sets = [s for s in value_sets(dt, rng) if s[0] in ("small", "max", "beyond-mantissa")]
        for tag, vals in sets:
            if d.kind in "iu":
                vals = [abs(v) or 1 for v in vals]
            elif d.kind == "f":
                vals = [abs(v) or 0.5 for v in vals]
            xs = pyvals(vals, dt)
            for eq, ua, ub, fn in equiv_table():
                for scalar in (False, True):
                    n = 1 if scalar else len(vals)
                    kbase = "C17[to_equivalent:%s:%s" % (eq, short(dt))
                    R.case("%s:%s:%s:%s:%s]" % (kbase, ua, ub, tag, scalar), nontrivial=True)
                    body0 = "q = mk(%r, %r, %r, %r)\n" % (vals, dt, ua, scalar)
                    res = {}
                    for route, expr in (("to_equivalent", "q.to_equivalent(%r, %r)" % (ub, eq)), ("to-equivalence", "q.to(%r, equivalence=%r)" % (ub, eq)),
                                        ("to_value-equivalence", "q.to_value(%r, equivalence=%r)" % (ub, eq))):
                        q = mk(vals, dt, ua, scalar)
                        try:
                            with np.errstate(all="ignore"):
                                r = eval(expr, {"q": q})
                        except Exception:  # noqa
                            continue
                        rb = np.asarray(r)
                        res[route] = rb
                        if route.startswith("to_value") and scalar:
                            continue
                        if rb.dtype != req:
                            asp = "dtype-wider" if (rb.dtype.kind == req.kind and rb.dtype.itemsize > req.itemsize) else "dtype"
                            fail("C17[%s:%s:%s]" % (route, short(dt), asp), "%s on %s data gives dtype %s, required %s" % (expr, dt, rb.dtype, req),
                                 body0 + "r = %s\nprint(np.asarray(r).dtype); sys.exit(0 if np.asarray(r).dtype == np.dtype(%r) else 1)\n" % (expr, req.str))
                        if d.kind != "c":
                            for x, g in zip(xs[:n], np.atleast_1d(rb)):
                                e = fn(Fraction(x))
                                u = err_ulps(g, e, rb.dtype)
                                if u > 8:
                                    fail("C17[%s:%s:%s:values:%s]" % (route, eq, short(dt), "ordinary" if tag in ORDINARY else "limits"),
                                         "%s on %s %s: %r, exact %.17g (%.3g ulp of %s)" % (expr, dt, vals[:n], g, ffloat(e), u, rb.dtype),
                                         body0 + "r = %s\nprint(r)\ng = float(np.atleast_1d(np.asarray(r))[%d]); e = %r\n"
                                         "sys.exit(1 if not (abs(g - e) <= 8 * float(np.finfo(np.asarray(r).dtype).eps) * abs(e)) else 0)\n" % (
                                             expr, list(xs[:n]).index(x), ffloat(e)))
                                    break
                    for iroute, istmt in (("convert_to_equivalent", "q.convert_to_equivalent(%r, %r)" % (ub, eq)),
                                          ("convert_to_units-equivalence", "q.convert_to_units(%r, equivalence=%r)" % (ub, eq))):
                        q = mk(vals, dt, ua, scalar)
                        R.case("C17[%s:%s:%s:%s:%s:%s:%s]" % (iroute, eq, short(dt), ua, ub, tag, scalar), nontrivial=True)
                        try:
                            with np.errstate(all="ignore"):
                                exec(istmt, {"q": q})
                        except Exception as e:  # noqa
                            if not (d.kind in "iu" and d.itemsize == 1) and "to_equivalent" in res:
                                fail("C17[%s:%s:raises-while-copy-works]" % (iroute, short(dt)), "%s raised %r but to_equivalent works" % (istmt, e),
                                     body0 + "q.to_equivalent(%r, %r)\ntry:\n    %s\nexcept Exception as e:\n    print(repr(e)); sys.exit(1)\n" % (ub, eq, istmt))
                            continue
                        ib = np.asarray(q)
                        if not (d.kind in "iu" and d.itemsize == 1) and ib.dtype != req:
                            fail("C17[%s:%s:dtype]" % (iroute, short(dt)), "%s leaves dtype %s, required %s" % (istmt, ib.dtype, req),
                                 body0 + "%s\nprint(q.dtype); sys.exit(0 if q.dtype == np.dtype(%r) else 1)\n" % (istmt, req.str))
                        if "to_equivalent" in res:
                            agree("C17[%s:%s:%s" % (iroute, eq, short(dt)), "to_equivalent(%r, %r)" % (ub, eq), istmt, res["to_equivalent"], ib,
                                  body0 + "r = q.to_equivalent(%r, %r)\n%s\n" % (ub, eq, istmt), dt)


# ---------------------------------------------------------------------------- RuntimeWarning for integers beyond the mantissa
def run_warnings():
    tested, missing = {}, {}
    for dt in L.INT_DT:
        d = np.dtype(dt)
        ii = np.iinfo(d)
        m = MANT[max(2, d.itemsize)]
        cases = []
        if 2 ** m + 1 <= ii.max:
            cases.append(("first-unrepresentable", [2 ** m + 1, 1, 2]))
            cases.append(("max", [ii.max, 1, 2]))
            if d.kind == "i":
                cases.append(("negative", [-(2 ** m) - 1, 1, 2]))
                cases.append(("min", [ii.min, 1, 2]))
        for tag, vals in cases:
            for scalar in (False, True):
                # factors < 1 only: nothing overflows, so a RuntimeWarning can only be unyt's own
                for route, stmt in (("to", "q.to('m')"), ("in_units", "q.in_units('m')"), ("to_value", "q.to_value('m')"), ("convert_to_units", "q.convert_to_units('m')"),
                                    ("in_base", "q.in_base()"), ("convert_to_base", "q.convert_to_base()"), ("in_cgs", "q.in_cgs()"), ("convert_to_mks", "q.convert_to_mks()"),
                                    ("to_equivalent", "t.to_equivalent('J', 'thermal')"), ("convert_to_equivalent", "t.convert_to_equivalent('J', 'thermal')"),
                                    ("add-second-operand", "other + q"), ("less", "other < q"),
                                    ("setitem", "arr[0:1] = q")):
                    key = "C17[large-warning:%s:%s:%s]" % (route, short(dt), tag)
                    R.case(key + str(scalar), nontrivial=True)
                    q = mk(vals, dt, "mm", scalar)
                    t = mk(vals, dt, "K", scalar)
                    other = unyt_array(np.array([1, 2, 3], dtype=dt), "m")
                    arr = unyt_array(np.array([1, 2, 3], dtype=dt), "m")
                    with warnings.catch_warnings(record=True) as w:
                        warnings.simplefilter("always")
                        try:
                            with np.errstate(over="warn", invalid="warn", divide="warn", under="ignore"):
                                exec(stmt, {"q": q, "other": other, "arr": arr, "t": t})
                        except Exception:  # noqa
                            continue
                    wfam = {"setitem": "in_units", "convert_to_base": "convert_to_units", "convert_to_mks": "convert_to_units",
                            "less": "binary"}.get(route, FAMILY.get(route, route))
                    wdt = "int16" if d.itemsize == 2 else "int32/64"
                    wtag = {"first-unrepresentable": "threshold-off-by-one", "negative": "threshold-off-by-one"}.get(tag, tag)
                    tested.setdefault((wfam, wdt), set()).add((short(dt), scalar, tag))
                    if not any(issubclass(x.category, RuntimeWarning) for x in w):
                        missing.setdefault((wfam, wdt), []).append(((short(dt), scalar, tag), wtag, "%s with %s %s (q in mm, t in K): no RuntimeWarning although |value| > 2**%d cannot be held by the %d-byte float" % (
                            stmt, dt, vals[:1] if scalar else vals, m, max(2, d.itemsize)),
                            "q = mk(%r, %r, 'mm', %r); t = mk(%r, %r, 'K', %r)\nother = unyt.unyt_array(np.array([1, 2, 3], dtype=%r), 'm'); arr = other.copy()\n"
                            "with warnings.catch_warnings(record=True) as w:\n    warnings.simplefilter('always')\n"
                            "    with np.errstate(over='warn', invalid='warn', divide='warn', under='ignore'):\n        %s\n"
                            "print([str(x.message) for x in w])\nsys.exit(0 if any(issubclass(x.category, RuntimeWarning) for x in w) else 1)\n" % (
                                vals, dt, scalar, vals, dt, scalar, dt, stmt)))
    for (fam, sdt), items in missing.items():
        if {c for c, _, _, _ in items} == tested[(fam, sdt)]:      # no case of this family warns at all
            _, t, what, body = items[0]
            fail("C17[large-warning:%s:%s:never-warns]" % (fam, sdt), what, body)
        else:
            for _, t, what, body in items:
                fail("C17[large-warning:%s:%s:%s]" % (fam, sdt, t), what, body)


# ---------------------------------------------------------------------------- mixed-unit binary ufuncs
BIN = ["add", "subtract", "less", "less_equal", "greater", "greater_equal", "equal", "not_equal", "maximum", "minimum", "fmax", "fmin",
       "hypot", "remainder", "mod", "fmod", "floor_divide"]
BPAIRS = [("cm", "m", "scale-exact"), ("m", "km", "scale-exact"), ("m", "cm", "scale-inexact"), ("cm", "km", "scale-large"), ("K", "mK", "scale-inexact")]


def exact_binary(name, x, y):
    """x, y: Fractions in the unit of the first operand"""
    if name == "add":
        return x + y
    if name == "subtract":
        return x - y
    if name in ("maximum", "fmax"):
        return max(x, y)
    if name in ("minimum", "fmin"):
        return min(x, y)
    if name in ("remainder", "mod"):
        return x - y * math.floor(x / y) if y else None
    if name == "fmod":
        return x - y * (math.floor(abs(x) / abs(y)) * (1 if x * y >= 0 else -1)) if y else None
    if name == "floor_divide":
        return Fraction(math.floor(x / y)) if y else None
    if name == "hypot":
        return None
    return {"less": x < y, "less_equal": x <= y, "greater": x > y, "greater_equal": x >= y, "equal": x == y, "not_equal": x != y}[name]


def run_binary():
    import random
    for dt in L.INT_DT + ["float16", "float32", "complex64", "complex128", "longdouble"]:
        d = np.dtype(dt)
        for partner in (dt, "float64"):
            for first in (True, False):       # is the `dt` operand the first one?
                for ua, ub, pclass in BPAIRS:
                    for draw in range(DRAWS):
                        rng = random.Random("%d|bin|%s|%s|%s|%s|%d" % (SEED, dt, partner, first, ua, draw))
                        sets = value_sets(dt, rng)
                        for tag, vals in sets:
                            if draw and tag != "small":
                                continue
                            if tag == "fine" or (d.kind == "f" and tag == "large"):
                                continue
                            pv = [rng.randint(1, 9) for _ in vals] if np.dtype(partner).kind in "iu" else [rng.randint(1, 36) / 4.0 for _ in vals]
                            if tag != "small":      # deterministic partners for the pinned / limit value sets
                                pv = [2, 1, 3][:len(vals)] if np.dtype(partner).kind in "iu" else [0.5, 0.25, 0.125][:len(vals)]
                            da, db = (dt, partner) if first else (partner, dt)
                            va, vb = (vals, pv) if first else (pv, vals)
                            for scalar in (False, True):
                                for name in BIN:
                                    if d.kind == "c" and name not in ("add", "subtract", "equal", "not_equal"):
                                        continue
                                    binary_case(name, da, db, va, vb, ua, ub, pclass, scalar, tag, dt, first)


def binary_case(name, da, db, va, vb, ua, ub, pclass, scalar, tag, dt, first):
    n = 1 if scalar else len(va)
    pos = "first" if first else "second"
    kbase = "C17[binary:%s:%s:%s:%s" % (name, pclass, short(dt), pos)
    R.case("%s:%s:%s:%s:%s]" % (kbase, da, db, tag, scalar), nontrivial=True)
    a, b = mk(va, da, ua, scalar), mk(vb, db, ub, scalar)
    body0 = "a = mk(%r, %r, %r, %r); b = mk(%r, %r, %r, %r)\n" % (va, da, ua, scalar, vb, db, ub, scalar)
    try:
        with np.errstate(all="ignore"):
            r = getattr(np, name)(a, b)
    except Exception:  # noqa  allowed (1-byte integers have no float)
        return
    rb = np.asarray(r)
    xa, xb = pyvals(va, da)[:n], pyvals(vb, db)[:n]
    A, B = Unit(ua), Unit(ub)
    ratio = Fraction(float(B.base_value)) / Fraction(float(A.base_value))
    fa, fb = L.float_for(da), L.float_for(db)
    want = np.result_type(fa, fb)
    is_cmp = name in ("less", "less_equal", "greater", "greater_equal", "equal", "not_equal")
    if is_cmp:
        if rb.dtype != np.dtype(bool):
            fail(kbase + ":dtype]", "np.%s(%s %s, %s %s) has dtype %s" % (name, da, ua, db, ub, rb.dtype), body0 + "r = np.%s(a, b)\nsys.exit(0 if np.asarray(r).dtype == bool else 1)\n" % name)
    else:
        if rb.dtype.kind not in "fc" or (want.kind == "c") != (rb.dtype.kind == "c"):
            fail("C17[binary:%s:%s:%s:dtype-kind]" % (name, short(dt), pos), "np.%s(%s %s, %s %s) has dtype %s" % (name, da, ua, db, ub, rb.dtype),
                 body0 + "r = np.%s(a, b)\nprint(np.asarray(r).dtype); sys.exit(0 if np.asarray(r).dtype.kind == %r else 1)\n" % (name, want.kind))
            return
        if rb.dtype != want:
            asp = "dtype-wider" if rb.dtype.itemsize > want.itemsize else "dtype-narrower"
            fail("C17[binary:%s:%s+%s:%s]" % ("arith", short(da), short(db), asp),
                 "np.%s(%s %s, %s %s) has dtype %s; the floats of the operands' item sizes combine to %s" % (name, da, ua, db, ub, rb.dtype, want),
                 body0 + "r = np.%s(a, b)\nprint(np.asarray(r).dtype); sys.exit(0 if np.asarray(r).dtype == np.dtype(%r) else 1)\n" % (name, want.str))
    # values.  The second operand is converted in the float of ITS item size (that is what the statement
    # requires of a conversion), so the bound is 4 ulp of the result type plus 4 ulp of that float type
    # on the converted operand; a converted operand beyond the range of that type may overflow.
    fbi = np.finfo(fb if fb.kind == "f" else np.dtype("f%d" % (fb.itemsize // 2)))
    epsb = max(frac(fbi.eps), Fraction(1, 2 ** 52))
    rfi = np.finfo(rb.dtype) if rb.dtype.kind in "fc" else None
    epsr = max(frac(rfi.eps), Fraction(1, 2 ** 52)) if rfi is not None else None
    for i, (x, y, g) in enumerate(zip(xa, xb, np.atleast_1d(rb))):
        if isinstance(x, complex) or isinstance(y, complex):
            x, y = complex(x), complex(y)
            yc = complex(float(Fraction(y.real) * ratio), float(Fraction(y.imag) * ratio))
            if abs(yc) > float(frac(fbi.max)):
                continue
            e = {"add": x + yc, "subtract": x - yc, "equal": x == yc, "not_equal": x != yc}[name]
            if is_cmp:
                bad = bool(g) != e and abs(x - yc) > 4 * float(epsb) * abs(yc)
            else:
                bad = abs(complex(g) - e) > 4 * float(epsr) * max(abs(e), abs(x), abs(yc)) + 4 * float(epsb) * abs(yc)
            ev = e
        else:
            x, y = Fraction(x), Fraction(y) * ratio
            if abs(y) > frac(fbi.max):
                continue
            slack = 4 * epsb * abs(y)
            e = exact_binary(name, x, y) if name != "hypot" else None
            if name == "hypot":
                ev = math.hypot(ffloat(x), ffloat(y))
                bad = not (abs(ffloat(frac(g)) - ev) <= 4 * float(epsr) * ev + float(slack)) if np.isfinite(g) else not (ev > float(frac(rfi.max)) * 0.999)
            elif is_cmp:
                ev = e
                bad = bool(g) != e and abs(x - y) > slack      # a tie within the rounding of the converted operand may go either way
            elif name in ("remainder", "mod", "fmod", "floor_divide"):
                # discontinuous: only meaningful when the converted operand and both inputs are exact in every float involved
                if e is None or tag != "small" or ratio.denominator != 1 or abs(y) > 2 ** 10 or abs(x) > 2 ** 10:
                    continue
                ev = ffloat(e)
                bad = frac(g) != e if np.isfinite(g) else True
            else:
                ev = ffloat(e)
                if np.isfinite(g):
                    bad = abs(frac(g) - e) > 4 * epsr * max(abs(x), abs(y), abs(e)) + slack
                else:
                    bad = not (abs(e) > frac(rfi.max) * (1 - epsr))
        if bad:
            fail(kbase + ":values:%s]" % ("ordinary" if tag in ORDINARY else "limits"),
                 "np.%s(%s %s, %s %s) element %d: got %r, exact %r" % (name, va[:n], ua, vb[:n], ub, i, g, ev),
                 body0 + "r = np.%s(a, b)\nprint(repr(r))\ng = np.atleast_1d(np.asarray(r))[%d]\ne = %r\n" % (name, i, ev) +
                 ("sys.exit(1 if bool(g) != e else 0)\n" if is_cmp else
                  "tol = 4 * float(np.finfo(np.asarray(r).dtype).eps) * max(abs(e), %r)\n"
                  "sys.exit(1 if not (abs(complex(g) - complex(e)) <= tol or (np.isinf(g) and abs(e) > float(np.finfo(np.asarray(r).dtype).max))) else 0)\n" % (
                      ffloat(max(abs(x), abs(y))) if not isinstance(x, complex) else max(abs(x), abs(yc)))))
            break
    # out=a form for integer first operands: a float of the same item size holding the same numbers
    if first and np.dtype(da).kind in "iu" and not is_cmp:
        a2, b2 = mk(va, da, ua, False), mk(vb, db, ub, False)
        R.case("%s:out=a:%s:%s:%s]" % (kbase, da, db, tag), nontrivial=True)
        try:
            with np.errstate(all="ignore"):
                getattr(np, name)(a2, b2, out=a2)
        except Exception:  # noqa
            return
        ob = np.asarray(a2)
        if ob.dtype != L.float_for(da) or ob.dtype.kind != "f":
            fail("C17[binary-out:%s:%s:dtype]" % (name, short(da)), "np.%s(a, b, out=a) leaves a with dtype %s, required %s" % (name, ob.dtype, L.float_for(da)),
                 "a = mk(%r, %r, %r, False); b = mk(%r, %r, %r, False)\nnp.%s(a, b, out=a)\nprint(a.dtype); sys.exit(0 if a.dtype == np.dtype(%r) else 1)\n" % (
                     va, da, ua, vb, db, ub, name, L.float_for(da).str))


SECTIONS = [("conversions", run_conversions), ("base", run_base), ("equivalence", run_equivalence), ("equivalence-integer", lambda: LE.run(R, SEED)),
            ("warnings", run_warnings), ("binary", run_binary)]
only = os.environ.get("C17_ONLY")
for sname, fn in SECTIONS:
    if only and sname not in only.split(","):
        continue
    t0, n0 = R.elapsed(), R.evaluations
    try:
        fn()
    except Exception as e:  # noqa
        import traceback
        R.notes.append("driver error in section %s: %r %s" % (sname, e, traceback.format_exc()[-600:]))
    R.notes.append("section %s: %d evaluations in %.1f s" % (sname, R.evaluations - n0, R.elapsed() - t0))
R.finish()
