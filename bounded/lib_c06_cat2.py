"""catalogue part 2: shape manipulation, joining/splitting, selection, in-place writers, creation"""
from lib_c06_catalogue import T, ANY, D2, D1, R2, R1

ALL2 = "f2|i2|c2|g2|k2|h2"

# ---- pure shape manipulation (result has the dimension of the input)
T("np.reshape", {
    "pos": "np.reshape(A, (4, 3))",
    "kw": "np.reshape(A, shape=(2, 6))",
    "minus1": "np.reshape(A, (-1,))",
    "order": "np.reshape(A, (6, 2), order='F')",
    "order-pos": "np.reshape(A, (6, 2), 'F')",
    "copy": "np.reshape(A, (12,), copy=True)",
    "0d": ("np.reshape(A, (1, 1))", {"A": "L:f0"}),
}, keep="A", A="L:" + ALL2)
T("np.ravel", {"pos": "np.ravel(A)", "order": "np.ravel(A, order='F')", "order-pos": "np.ravel(A, 'F')"},
  keep="A", A="L:f2|i2|c2|f0|f3")
T("np.transpose", {"pos": "np.transpose(A)", "axes": ("np.transpose(A, (1, 0, 2))", {"A": "L:f3|i3"}),
                   "axes-kw": ("np.transpose(A, axes=(2, 0, 1))", {"A": "L:f3"})}, keep="A", A="L:f2|i2|c2|f1|f0|f3")
T("np.permute_dims", {"pos": "np.permute_dims(A)", "axes": ("np.permute_dims(A, (1, 0, 2))", {"A": "L:f3"}),
                      "axes-kw": ("np.permute_dims(A, axes=(2, 0, 1))", {"A": "L:f3"})}, keep="A", A="L:f2|i2|c2|f3")
T("np.matrix_transpose", "np.matrix_transpose(A)", keep="A", A="L:f2|i2|c2|f3")
T("np.swapaxes", {"pos": "np.swapaxes(A, 0, 1)", "kw": ("np.swapaxes(A, axis1=0, axis2=2)", {"A": "L:f3"})},
  keep="A", A="L:f2|i2|c2|f3")
T("np.moveaxis", {"pos": "np.moveaxis(A, 0, -1)", "kw": "np.moveaxis(A, source=[0, 1], destination=[1, 2])"},
  keep="A", A="L:f3|i3|c3")
T("np.rollaxis", {"pos": "np.rollaxis(A, 2)", "start": "np.rollaxis(A, 2, 1)", "kw": "np.rollaxis(A, axis=1, start=3)"},
  keep="A", A="L:f3|i3")
T("np.squeeze", {"pos": "np.squeeze(A)", "axis": "np.squeeze(A, 0)", "axis-kw": "np.squeeze(A, axis=0)"},
  keep="A", A="L:fr|ir|fo")
T("np.expand_dims", {"pos": "np.expand_dims(A, 0)", "kw": "np.expand_dims(A, axis=-1)", "tuple": "np.expand_dims(A, (0, 2))"},
  keep="A", A="L:f1|f2|i2|c1|f0")
for fn in ("atleast_1d", "atleast_2d", "atleast_3d"):
    T("np." + fn, {"pos": "np.%s(A)" % fn, "multi": ("np.%s(A, B)" % fn, {"B": "T:f1|f0"})},
      keep="A@0", A="L:f0|f1|f2|i0|c1|f3")
T("np.broadcast_to", {"pos": "np.broadcast_to(A, (2, 3, 4))", "kw": "np.broadcast_to(A, shape=(2, 3, 4))",
                      "subok": "np.broadcast_to(A, (2, 3, 4), subok=True)"}, keep="A", A="L:f2|i2|f[4]|f0")
T("np.broadcast_arrays", {"pos": "np.broadcast_arrays(A, B)", "subok": "np.broadcast_arrays(A, B, subok=True)"},
  A="L:f2|i2|f0", B="T:f[4]|f[3x1]|f2")
T("np.flip", {"pos": "np.flip(A)", "axis": "np.flip(A, 1)", "axis-kw": "np.flip(A, axis=0)"}, keep="A", A="L:f2|i2|c2|f3")
T("np.fliplr", "np.fliplr(A)", keep="A", A="L:f2|i2|c2")
T("np.flipud", "np.flipud(A)", keep="A", A="L:f2|i2|c2|f1")
T("np.roll", {"pos": "np.roll(A, 2)", "axis": "np.roll(A, 1, 1)", "axis-kw": "np.roll(A, shift=-1, axis=0)",
              "tuple": "np.roll(A, (1, 2), axis=(0, 1))"}, keep="A", A="L:f2|i2|c2")
T("np.rot90", {"pos": "np.rot90(A)", "k": "np.rot90(A, 3)", "k-kw": "np.rot90(A, k=2)",
               "axes": ("np.rot90(A, 1, (1, 2))", {"A": "L:f3"}), "axes-kw": ("np.rot90(A, axes=(0, 2))", {"A": "L:f3"})},
  keep="A", A="L:f2|i2|c2")
T("np.tile", {"pos": "np.tile(A, 2)", "tuple": "np.tile(A, (2, 1, 2))", "kw": "np.tile(A, reps=(1, 3))"},
  keep="A", A="L:f1|f2|i2|f0")
T("np.repeat", {"pos": "np.repeat(A, 2)", "axis": "np.repeat(A, 2, 1)", "axis-kw": "np.repeat(A, repeats=[1, 0, 2], axis=0)"},
  keep="A", A="L:f2|i2|c2")
T("np.resize", {"pos": "np.resize(A, (2, 7))", "kw": "np.resize(A, new_shape=(5,))"}, keep="A", A="L:f2|i2|f1")
T("np.copy", {"pos": "np.copy(A)", "order": "np.copy(A, order='F')", "subok": "np.copy(A, subok=True)",
              "order-pos": "np.copy(A, 'F')"}, keep="A", A="L:f2|i2|c2|f0|fe")
T("np.astype", {"pos": "np.astype(A, np.float32)", "copy": "np.astype(A, np.float64, copy=False)",
                "to-int": ("np.astype(A, np.int32)", {"A": "L:f2"}), "to-complex": "np.astype(A, np.complex128)"},
  keep="A", nocov=("to-int",), A="L:f2|i2|g2|f1")
T("np.real", "np.real(A)", keep="A", A="L:c2|f2|i2|c0")
T("np.imag", "np.imag(A)", keep="A", A="L:c2|f2|i2|c0")
T("np.real_if_close", {"pos": "np.real_if_close(A)", "tol": "np.real_if_close(A, tol=1000)", "tol-pos": "np.real_if_close(A, 1e17)"},
  keep="A", nocov=("tol-pos",), A="L:c2|f2|c1")
T("np.diag", {"pos": "np.diag(A)", "k": "np.diag(A, 1)", "k-kw": "np.diag(A, k=-1)"}, keep="A", A="L:f1|f2|i2|c1|fs")
T("np.diagflat", {"pos": "np.diagflat(A)", "k": "np.diagflat(A, 1)", "k-kw": "np.diagflat(A, k=-1)"}, keep="A", A="L:f1|f2|i2")
T("np.diagonal", {"pos": "np.diagonal(A)", "offset": "np.diagonal(A, 1)", "offset-kw": "np.diagonal(A, offset=-1)",
                  "axes": ("np.diagonal(A, 0, 1, 2)", {"A": "L:f3"}), "axes-kw": ("np.diagonal(A, axis1=0, axis2=2)", {"A": "L:f3"})},
  keep="A", A="L:f2|i2|c2|fs")
T("np.tril", {"pos": "np.tril(A)", "k": "np.tril(A, 1)", "k-kw": "np.tril(A, k=-1)"}, keep="A", A="L:f2|i2|c2|f3|fs")
T("np.triu", {"pos": "np.triu(A)", "k": "np.triu(A, 1)", "k-kw": "np.triu(A, k=-1)"}, keep="A", A="L:f2|i2|c2|f3|fs")
T("np.trim_zeros", {"pos": "np.trim_zeros(A)", "trim": "np.trim_zeros(A, 'f')", "trim-kw": "np.trim_zeros(A, trim='b')"},
  keep="A", A="L:f6z|i6z")
T("np.nan_to_num", {"pos": "np.nan_to_num(A)", "copy": "np.nan_to_num(A, copy=False)",
                    "nan-zero": "np.nan_to_num(A, nan=0.0, posinf=None)",
                    "nan-qty": ("np.nan_to_num(A, nan=V)", {"V": "L:f0"})}, keep="A", A="L:f2~|f1~|f2")
T("np.nan_to_num", {"nan-bare": "np.nan_to_num(A, nan=2.5)"}, keep="A", A="L:f2~")

# ---- joining
T("np.concatenate", {
    "pos": "np.concatenate((A, B))",
    "axis": "np.concatenate((A, B), 1)",
    "axis-kw": "np.concatenate([A, B], axis=-1)",
    "axis-none": "np.concatenate((A, B), axis=None)",
    "out": "np.concatenate((A, B), axis=0, out=O)",
    "dtype": "np.concatenate((A, B), axis=0, dtype=np.float32)",
    "casting": "np.concatenate((A, B), dtype=np.int32, casting='unsafe')",
    "three": ("np.concatenate((A, B, C))", {"C": "L:f2"}),
    "1d": ("np.concatenate((A, B))", {"A": "L:f1|fe", "B": "L:f6|f1"}),
}, keep="A", nocov=("casting",), A="L:f2|i2|c2|g2", B="L:f2|i2|f2|f2")
T("np.concat", {"pos": "np.concat((A, B))", "axis": "np.concat((A, B), 1)", "out": "np.concat((A, B), axis=1, out=O)",
                "dtype": "np.concat((A, B), axis=0, dtype=np.float32)"}, keep="A", A="L:f2|i2", B="L:f2|f2")
T("np.stack", {
    "pos": "np.stack((A, B))",
    "axis": "np.stack((A, B), 1)",
    "axis-kw": "np.stack([A, B], axis=-1)",
    "out": ("np.stack((A, B), axis=1, out=O)", {"A": "L:f2|i2|c2|f1", "B": "L:f2|i2|f2|f1"}),
    "dtype": ("np.stack((A, B), dtype=np.float32)", {"A": "L:f2|i2|f1", "B": "L:f2|i2|f1"}),
    "casting": "np.stack((A, B), axis=0, dtype=np.int32, casting='unsafe')",
    "out-dtype": ("np.stack((A, B), axis=0, out=O, dtype=np.float32)", {"A": "L:f2|i2", "B": "L:f2|i2"}),
}, keep="A", nocov=("casting",), A="L:f2|i2|c2|f1|f0", B="L:f2|i2|f2|f1|f0")
for fn in ("vstack", "hstack"):
    T("np." + fn, {
        "pos": "np.%s((A, B))" % fn,
        "list": "np.%s([A, B])" % fn,
        "dtype": "np.%s((A, B), dtype=np.float32)" % fn,
        "casting": "np.%s((A, B), dtype=np.int32, casting='unsafe')" % fn,
        "three": ("np.%s((A, B, C))" % fn, {"A": "L:f2|f1", "B": "L:f2|f1", "C": "L:f2|f1"}),
    }, keep="A", nocov=("casting",), A="L:f2|i2|c2|f1|f0", B="L:f2|i2|f2|f1|f0")
T("np.dstack", {"pos": "np.dstack((A, B))", "list": "np.dstack([A, B])"}, keep="A", A="L:f2|i2|c2|f1|f0", B="L:f2|i2|f2|f1|f0")
T("np.column_stack", {"pos": "np.column_stack((A, B))", "list": "np.column_stack([A, B])",
                      "mixed-ndim": ("np.column_stack((A, B))", {"A": "L:f[3]", "B": "L:f2"})},
  keep="A", A="L:f2|i2|c2|f1", B="L:f2|i2|f2|f1")
T("np.block", {
    "flat": "np.block([A, B])",
    "nested": "np.block([[A, B], [B, A]])",
    "single": "np.block(A)",
    "mixed-ndim": ("np.block([[A], [B]])", {"A": "L:f2", "B": "L:f[4]"}),
}, keep="A", A="L:f2|i2|c2|f1", B="L:f2|i2|f2|f1")
T("np.append", {"pos": "np.append(A, B)", "axis": "np.append(A, B, 0)", "axis-kw": "np.append(A, B, axis=1)"},
  keep="A", A="L:f2|i2|c2", B="L:f2|i2|f2")
T("np.insert", {
    "pos": "np.insert(A, 1, B)",
    "axis": ("np.insert(A, 1, B, 1)", {"A": "L:f2|i2", "B": "L:f[3]|i[3]"}),
    "axis-kw": ("np.insert(A, [0, 2], B, axis=0)", {"A": "L:f2", "B": "L:f[4]"}),
    "scalar-qty": ("np.insert(A, 2, B)", {"B": "L:f0|i0|f0"}),
    "slice": ("np.insert(A, slice(0, 2), B)", {"B": "L:f0|i0|f0"}),
}, keep="A", A="L:f1|i1|c1", B="L:f1|i1|f1")
T("np.insert", {"bare-scalar": "np.insert(A, 1, 2.5)"}, keep="A", A="L:f1")
T("np.delete", {"pos": "np.delete(A, 1)", "axis": "np.delete(A, [0, 2], 1)", "axis-kw": "np.delete(A, slice(0, 2), axis=0)",
                "mask": ("np.delete(A, K)", {"A": "L:f1", "K": "-:b1"})}, keep="A", A="L:f2|i2|c2")
T("np.pad", {
    "pos": "np.pad(A, 1)",
    "width": "np.pad(A, ((1, 2), (0, 1)))",
    "kw": "np.pad(A, pad_width=2, mode='edge')",
    "mode-pos": "np.pad(A, 1, 'reflect')",
    "linear-ramp": ("np.pad(A, 2, mode='linear_ramp')", {"A": "L:f2|c2|f1"}),
    "mean": ("np.pad(A, 1, mode='mean', stat_length=2)", {"A": "L:f2|c2|f1"}),
    "maximum": "np.pad(A, 1, mode='maximum')",
    "wrap": "np.pad(A, 2, mode='wrap')",
    "symmetric-odd": "np.pad(A, 2, mode='symmetric', reflect_type='odd')",
    "constant-zero": "np.pad(A, 1, mode='constant', constant_values=0)",
    "constant-qty": ("np.pad(A, 1, mode='constant', constant_values=V)", {"V": "L:f0", "A": "L:f2|c2|f1"}),
    "ramp-end-qty": ("np.pad(A, 2, mode='linear_ramp', end_values=V)", {"V": "L:f0", "A": "L:f2|c2|f1"}),
}, keep="A", A="L:f2|i2|c2|f1")
T("np.pad", {"constant-bare": "np.pad(A, 1, mode='constant', constant_values=2.5)",
             "ramp-end-bare": "np.pad(A, 2, mode='linear_ramp', end_values=2.5)"}, keep="A", A="L:f2")

# ---- splitting
for fn, arg, shp in (("split", "2", "f[4x3]|i[4x3]|f8"), ("array_split", "3", "f2|i2|f1"), ("vsplit", "2", "f[4x3]|i[4x3]"),
                     ("hsplit", "2", "f2|i2|f8"), ("dsplit", "2", "f3|i3")):
    d = {"pos": "np.%s(A, %s)" % (fn, arg), "indices": "np.%s(A, [1, 2])" % fn,
         "kw": "np.%s(A, indices_or_sections=[1])" % fn}
    if fn in ("split", "array_split"):
        d["axis"] = ("np.%s(A, 2, 1)" % fn, {"A": "L:f2"})
        d["axis-kw"] = ("np.%s(A, [1, 3], axis=1)" % fn, {"A": "L:f2|i2"})
    T("np." + fn, d, keep="A", A="L:" + shp)
T("np.unstack", {"pos": "np.unstack(A)", "axis": "np.unstack(A, axis=1)"}, keep="A", A="L:f2|i2|c2|f3")

# ---- selection
T("np.take", {
    "pos": "np.take(A, [0, 2, 1])",
    "scalar": "np.take(A, 3)",
    "axis": ("np.take(A, [2, 0], 1)", {"A": "L:f2|i2"}),
    "axis-kw": ("np.take(A, indices=[[0, 1], [2, 2]], axis=0)", {"A": "L:f2|c2"}),
    "out": ("np.take(A, [2, 0, 0], axis=1, out=O)", {"A": "L:f2|i2"}),
    "mode-wrap": "np.take(A, [7, -9, 13], mode='wrap')",
    "mode-clip": "np.take(A, [7, -9, 1], mode='clip')",
    "mode-axis": ("np.take(A, [5, -7], 1, None, 'wrap')", {"A": "L:f2"}),
}, keep="A", A="L:f1|f2|i2|c2|g1")
T("np.take_along_axis", {"pos": "np.take_along_axis(A, np.argsort(np.asarray(A), axis=1), 1)",
                         "kw": "np.take_along_axis(A, np.array([[0], [2], [1]]), axis=1)",
                         "none": "np.take_along_axis(A, np.array([3, 0, 11]), axis=None)",
                         "default": ("np.take_along_axis(A, np.array([1, 0, 0, 2, 2]))", {"A": "L:f1"})},
  keep="A", A="L:f2|i2|c2")
T("np.compress", {"pos": "np.compress([True, False, True], A)", "axis": "np.compress([True, False, True], A, 0)",
                  "axis-kw": "np.compress([False, True, True, False], A, axis=1)",
                  "out": "np.compress([True, False, True], A, axis=0, out=O)"}, keep="A", A="L:f2|i2|c2")
T("np.extract", {"pos": "np.extract(K, A)", "kw": "np.extract(condition=K, arr=A)"}, keep="A", A="L:f2|i2|c2", K="-:b2")
T("np.choose", {
    "pos": "np.choose([0, 1, 2, 1], (A, B, C))",
    "list": "np.choose(np.array([[0], [1], [2]]), [A, B, C])",
    "mode-wrap": "np.choose([4, -1, 2, 7], (A, B, C), mode='wrap')",
    "mode-clip": "np.choose([4, -1, 2, 7], (A, B, C), mode='clip')",
    "out": "np.choose([0, 1, 2, 1], (A, B, C), out=O)",
    "out-mode": "np.choose([5, 1, -2, 1], (A, B, C), out=O, mode='clip')",
}, keep="A", A="L:f2|i2|f[4]", B="L:f2|i2|f[4]", C="L:f2|i2|f[4]")
T("np.select", {
    "pos": "np.select([K, ~K], [A, B])",
    "default-zero": "np.select([K], [A], 0)",
    "default-qty": ("np.select([K], [A], V)", {"V": "L:f0"}),
    "default-kw": ("np.select(condlist=[K], choicelist=[A, ][:1], default=V)", {"V": "L:f0"}),
}, keep="A", A="L:f2|i2|c2", B="L:f2|i2|f2", K="-:b2")
T("np.select", {"default-bare": "np.select([K], [A], 2.5)"}, keep="A", A="L:f2", K="-:b2")
T("np.where", {
    "one-arg": "np.where(A)",
    "three": "np.where(K, A, B)",
    "three-cond-qty": "np.where(A > B, A, B)",
    "broadcast": ("np.where(K, A, B)", {"B": "L:f0"}),
}, A="L:f2z|i2z|c2", B="L:f2|i2|f2", K="-:b2")
T("np.where", {"keep": "np.where(K, A, B)"}, keep="A", A="L:f2", B="L:f2", K="-:b2")
T("np.nonzero", "np.nonzero(A)", A="L:f2z|i2z|c2|f1z")
T("np.flatnonzero", "np.flatnonzero(A)", A="L:f2z|i2z|f1z")
T("np.argwhere", "np.argwhere(A)", A="L:f2z|i2z|f1z|f0")

# ---- in-place writers (the mutated slot is compared afterwards)
T("np.copyto", {
    "pos": "np.copyto(A, B)",
    "where": "np.copyto(A, B, where=K)",
    "casting": ("np.copyto(A, B, casting='unsafe')", {"A": "L:i2", "B": "L:f2"}),
    "casting-pos": ("np.copyto(A, B, 'unsafe', K)", {"A": "L:i2", "B": "L:f2"}),
    "broadcast": ("np.copyto(A, B)", {"B": "L:f[4]|f0"}),
    "bare-dst": ("np.copyto(D, B)", {"D": "-:f2"}),
}, nocov=("casting", "casting-pos"), A="L:f2|i2|c2", B="L:f2|i2|f2", K="-:b2")
T("np.put", {
    "pos": "np.put(A, [0, 5], B)",
    "kw": "np.put(A, ind=[1, 2, 3], v=B)",
    "mode-wrap": "np.put(A, [13, -14], B, mode='wrap')",
    "mode-clip": "np.put(A, [13, -14], B, mode='clip')",
    "mode-pos": "np.put(A, [25, 0], B, 'clip')",
}, A="L:f2|i2|c2", B="L:f[2]|i[2]|f[2]")
T("np.place", {"pos": "np.place(A, K, B)", "kw": "np.place(A, mask=K, vals=B)"}, A="L:f2|i2|c2", B="L:f[2]|i[2]|f[2]", K="-:b2")
T("np.putmask", {"pos": "np.putmask(A, K, B)", "kw": "np.putmask(A, mask=K, values=B)",
                 "short": ("np.putmask(A, K, B)", {"B": "L:f[2]"})}, A="L:f2|i2|c2", B="L:f2|i2|f2", K="-:b2")
T("np.put_along_axis", {"pos": "np.put_along_axis(A, np.array([[0], [2], [1]]), B, 1)",
                        "kw": "np.put_along_axis(A, np.array([[0, 1, 2, 1]]), B, axis=0)",
                        "none": "np.put_along_axis(A, np.array([3, 0, 11]), B, axis=None)"},
  A="L:f2|i2|c2", B="L:f0|i0|f0")
T("np.fill_diagonal", {"pos": "np.fill_diagonal(A, B)", "wrap": ("np.fill_diagonal(A, B, wrap=True)", {"A": "L:f[7x3]"}),
                       "wrap-pos": ("np.fill_diagonal(A, B, True)", {"A": "L:f[7x3]"}),
                       "array-val": ("np.fill_diagonal(A, B)", {"A": "L:f2|c2|fs", "B": "L:f[3]"})},
  A="L:f2|i2|c2|fs", B="L:f0|i0|f0|f0")
for fn, ex in (("put", "np.put(A, [0, 5], 2.5)"), ("place", "np.place(A, K, 2.5)"), ("putmask", "np.putmask(A, K, 2.5)"),
               ("put_along_axis", "np.put_along_axis(A, np.array([[0], [2], [1]]), 2.5, 1)"),
               ("fill_diagonal", "np.fill_diagonal(A, 2.5)"), ("copyto", "np.copyto(A, 2.5)")):
    T("np." + fn, {"bare-scalar": ex}, A="L:f2", K="-:b2")

# ---- creation from a template array
for fn in ("zeros_like", "ones_like", "empty_like"):
    T("np." + fn, {"pos": "np.%s(A)" % fn, "dtype": "np.%s(A, np.float32)" % fn, "dtype-kw": "np.%s(A, dtype=np.int32, order='F')" % fn,
                   "subok": "np.%s(A, subok=False)" % fn, "shape": "np.%s(A, shape=(2, 2))" % fn},
      garbage=(fn == "empty_like"), nocov=("subok",), A="L:f2|i2|c2|f0")
T("np.full_like", {"qty": "np.full_like(A, V)", "dtype": "np.full_like(A, V, np.float32)", "dtype-kw": "np.full_like(A, V, dtype=np.float64, order='F')",
                   "subok": "np.full_like(A, V, subok=False)", "shape": "np.full_like(A, V, shape=(2, 2))",
                   "zero": "np.full_like(A, 0)"},
  nocov=("subok",), A="L:f2|i2|c2|f0", V="L:f0|i0|f0|f0")
T("np.full_like", {"bare-scalar": "np.full_like(A, 2.5)"}, A="L:f2")
T("np.meshgrid", {"pos": "np.meshgrid(A, B)", "ij": "np.meshgrid(A, B, indexing='ij')", "sparse": "np.meshgrid(A, B, sparse=True)",
                  "nocopy": "np.meshgrid(A, B, copy=False)", "single": "np.meshgrid(A)"}, A="L:f1|i1|c1", B="T:f[3]|i[3]|f[3]")
T("np.linspace", {
    "pos": "np.linspace(A, B)",
    "num": "np.linspace(A, B, 7)",
    "num-kw": "np.linspace(A, B, num=4, endpoint=False)",
    "retstep": "np.linspace(A, B, 5, True, True)",
    "retstep-kw": "np.linspace(A, B, num=5, retstep=True)",
    "dtype": "np.linspace(A, B, 5, dtype=np.float32)",
    "axis": ("np.linspace(A, B, 4, axis=1)", {"A": "L:f[3]", "B": "L:f[3]"}),
    "axis-neg": ("np.linspace(A, B, 4, axis=-1)", {"A": "L:f[3]", "B": "L:f[3]"}),
}, keep="A@0", A="L:f0|i0|f0+", B="L:f0|i0|f[3]")
T("np.geomspace", {
    "pos": "np.geomspace(A, B)",
    "num": "np.geomspace(A, B, 7)",
    "num-kw": "np.geomspace(A, B, num=4, endpoint=False)",
    "dtype": "np.geomspace(A, B, 5, dtype=np.float32)",
    "axis": ("np.geomspace(A, B, 4, axis=1)", {"A": "L:f[3]+", "B": "L:f[3]+"}),
}, keep="A", A="L:f0+|i0+", B="L:f0+|i0+")
T("np.logspace", {
    "bare": "np.logspace(0.0, 2.0, 4, base=A)",
    "bare-endpoint": "np.logspace(0.0, 2.0, num=4, endpoint=False, base=A)",
    "dtype": "np.logspace(0.0, 2.0, 3, base=A, dtype=np.float32)",
    "one": "np.logspace(1.0, 1.0, 1, base=A)",
    "qty-start": "np.logspace(A, 2 * A)",
    "array-base-axis": ("np.logspace(0.0, 2.0, 3, base=A, axis=-1)", {"A": "L:f[3x1]+"}),
}, A="L:f0+|i0+")
T("np.logspace", {"no-qty-base": "np.logspace(D, 2.0, 4, base=2.0)"}, D="1:f0+")
