"""C17 section "equivalence routes on integer data compute in floating point".

Every equivalence of unyt.equivalencies.equivalence_registry x every ordered pair of its member dimensions x every
integer dtype x the copying routes (to / in_units / to_equivalent / to_value with an equivalence) x source / target
units x value arrays whose squares and fourth powers do not fit the integer dtype (dtype max, isqrt(max)+1..,
the first n with n**4 > max, small values; for signed dtypes also the negative twins and the dtype min).

Oracle (from the statement: "floating-point data ... holding the mathematically converted values ... never
integer-truncated [or wrapped] values"):
  values   the result equals the SAME route applied to the data cast to float64 first, within
           max(1e-12, 4 eps(result dtype)) relative (nan == nan, inf == inf; a result type narrower than float64 may
           overflow to inf where the float64 number is beyond its range)
  formula  the result equals the defining formula of the equivalence evaluated by this module in plain float64 on SI
           magnitudes (unit table's base_value, the constants of unyt.physical_constants), within 1e-9 relative times
           the condition number of the formula (only 1 - beta**2 of the Lorentz factor is ill-conditioned)
  units / dtype-kind / raises   the result carries the requested unit, is a float array, and the route does not
           raise on integer data when it works on the float64 image.
Keys: C17[equivalence-integer:<equivalence>:<signed|unsigned><itemsize>:<aspect>] -- one per defect site."""
import math
import random

import numpy as np
import unyt
from unyt import Unit, unyt_array, unyt_quantity
from unyt import dimensions as D
from unyt.equivalencies import equivalence_registry

from common import replay_script

INT_DT = ["int8", "int16", "int32", "int64", "uint8", "uint16", "uint32", "uint64"]

# units per dimension: [source/target candidates]; quick uses the first two, thorough all
DIM_UNITS = {
    D.density: ["g/cm**3", "kg/m**3", "Msun/pc**3"],
    D.number_density: ["cm**-3", "m**-3", "1/pc**3"],
    D.temperature: ["K", "R", "mK"],
    D.energy: ["J", "keV", "erg"],
    D.mass: ["g", "kg", "Msun"],
    D.length: ["m", "km", "angstrom"],
    D.rate: ["Hz", "MHz", "1/s"],
    D.spatial_frequency: ["1/m", "1/cm", "1/angstrom"],
    D.velocity: ["km/s", "m/s", "c"],
    D.dimensionless: ["dimensionless", ""],
    D.flux: ["W/m**2", "erg/s/cm**2", "mW/cm**2"],
}
# keyword variants (the formulas take parameters): checked in addition to the defaults
KWARGS = {"number_density": [{}, {"mu": 1.4}], "sound_speed": [{}, {"mu": 1.2, "gamma": 1.4}]}


def _consts():
    import unyt.physical_constants as pc
    return dict(kb=float(pc.kboltz.in_mks().v), c=float(pc.clight.in_mks().v), h=float(pc.h_mks.in_mks().v),
                mh=float(pc.mh.in_mks().v), G=float(pc.G.in_mks().v), sigma=float(pc.stefan_boltzmann_constant_mks.in_mks().v))


PRE = '''
def mk(vals, dt, unit, scalar, as_float=False):
    a = np.array(vals, dtype=dt)
    if as_float:
        a = a.astype('float64')
    return unyt.unyt_quantity(a[0], unit) if scalar else unyt.unyt_array(a, unit)
def mismatch(got, exp, rel=1e-12, cond=None):
    """indices where got (bare array) is not exp (float64 array) within max(rel, 4 eps(got.dtype)) * cond"""
    got = np.atleast_1d(np.asarray(got)); exp = np.atleast_1d(np.asarray(exp, dtype='float64'))
    if got.dtype.kind != 'f' or got.shape != exp.shape:
        return list(range(len(exp)))
    fi = np.finfo(got.dtype)
    tol = max(rel, 4 * float(fi.eps))
    bad = []
    for i, (g, e) in enumerate(zip(got.tolist(), exp.tolist())):
        t = tol * (cond[i] if cond is not None else 1.0)
        if not t < 1:           # hopelessly ill-conditioned point of the formula: nothing to require
            continue
        if e != e:
            ok = g != g
        elif e in (float('inf'), -float('inf')):
            ok = g == e
        elif g in (float('inf'), -float('inf')):
            ok = abs(e) > float(fi.max) * (1 - float(fi.eps)) and (g > 0) == (e > 0)
        elif g != g:
            ok = False
        else:
            ok = abs(g - e) <= t * abs(e) or (abs(e) < float(fi.tiny) and abs(g - e) <= float(fi.tiny))
        if not ok:
            bad.append(i)
    return bad
'''
_ns = {"np": np, "unyt": unyt}
exec(PRE, _ns)
mk, mismatch = _ns["mk"], _ns["mismatch"]


def formula(eq, da, db, x, k, kw):
    """defining formula on SI magnitudes (float64 numpy array x of dimension da -> dimension db); returns (y, cond)"""
    one = np.ones_like(x)
    with np.errstate(all="ignore"):
        if eq == "number_density":
            mu = kw.get("mu", 0.6)
            return (x * (mu * k["mh"]) if db == D.density else x / (mu * k["mh"])), one
        if eq == "thermal":
            return (x * k["kb"] if db == D.energy else x / k["kb"]), one
        if eq == "mass_energy":
            return (x * k["c"] ** 2 if db == D.energy else x / k["c"] ** 2), one
        if eq == "spectral":
            hc = k["h"] * k["c"]
            e = {D.length: lambda v: hc / v, D.rate: lambda v: k["h"] * v, D.spatial_frequency: lambda v: hc * v, D.energy: lambda v: v}[da](x)
            return {D.length: lambda v: hc / v, D.rate: lambda v: v / k["h"], D.spatial_frequency: lambda v: v / hc, D.energy: lambda v: v}[db](e), one
        if eq == "sound_speed":
            mu, gamma = kw.get("mu", 0.6), kw.get("gamma", 5.0 / 3.0)
            e = {D.velocity: lambda v: v * v * (mu * k["mh"]) / gamma, D.temperature: lambda v: v * k["kb"], D.energy: lambda v: v}[da](x)
            return {D.velocity: lambda v: np.sqrt(gamma * v / (mu * k["mh"])), D.temperature: lambda v: v / k["kb"], D.energy: lambda v: v}[db](e), one
        if eq == "lorentz":
            if db == D.dimensionless:
                b2 = (x / k["c"]) ** 2
                return 1.0 / np.sqrt(1.0 - b2), 1.0 + 4e-6 / np.maximum(np.abs(1.0 - b2), 1e-300)     # 1e-9 * cond ~ 1e-9 + 4e-15 / (1 - beta**2)
            return k["c"] * np.sqrt(1.0 - 1.0 / (x * x)), one
        if eq == "schwarzschild":
            return (x * (2.0 * k["G"] / k["c"] ** 2) if db == D.length else x * (0.5 * k["c"] ** 2 / k["G"])), one
        if eq == "compton":
            return (k["h"] / k["c"]) / x, one
        if eq == "effective_temperature":
            return (k["sigma"] * x ** 4 if db == D.flux else (x / k["sigma"]) ** 0.25), one
    return None, None


def units_for(dim, n):
    if dim in DIM_UNITS:
        return DIM_UNITS[dim][:n]
    from unyt.unit_systems import mks_unit_system
    return [str(mks_unit_system[dim])]          # an equivalence added later: still compared with its float64 image


def value_arrays(dt, rng):
    """[(tag, values)]: every square / fourth power of the non-small entries is outside the integer dtype, inside float64"""
    ii = np.iinfo(dt)
    mx = int(ii.max)
    s = math.isqrt(mx) + 1                       # s*s > max (== 2**bits for unsigned: wraps to exactly 0)
    r4 = 1
    while r4 ** 4 <= mx:
        r4 += 1
    out = [("values", [mx, mx - 1, mx // 2 + 1, s, s + 1, 2 * s - 1, r4, r4 + 1, 1, 2, 3, rng.randint(4, min(11, mx))])]
    if ii.min < 0:
        out.append(("values", [int(ii.min), int(ii.min) + 1, -s, -s - 1, -r4, -1, -rng.randint(2, 9)]))
    scalars = [mx, s, r4] + ([-s] if ii.min < 0 else [])
    return out, scalars


def run(R, seed):
    k = _consts()
    seen = set()

    def fail(key, what, body):
        if key in seen:
            return
        seen.add(key)
        R.fail(key, what, replay_script(PRE + body))

    nunits = 3 if R.thorough else 2
    draws = 4 if R.thorough else 1
    unknown = []
    for eq, cls in equivalence_registry.items():
        dims = list(cls._dims)
        for da in dims:
            for db in dims:
                if da == db:
                    continue
                for kw in KWARGS.get(eq, [{}]):
                    kws = "".join(", %s=%r" % it for it in sorted(kw.items()))
                    for ua in units_for(da, nunits):
                        for ub in units_for(db, nunits):
                            if kw and (ua, ub) != (units_for(da, 1)[0], units_for(db, 1)[0]):
                                continue
                            routes = [("to", "q.to(%r, equivalence=%r%s)" % (ub, eq, kws)), ("in_units", "q.in_units(%r, equivalence=%r%s)" % (ub, eq, kws)),
                                      ("to_equivalent", "q.to_equivalent(%r, %r%s)" % (ub, eq, kws)), ("to_value", "q.to_value(%r, equivalence=%r%s)" % (ub, eq, kws))]
                            if R.thorough:
                                routes += [("to-positional", "q.to(%r, %r%s)" % (ub, eq, kws)), ("to-Unit", "q.to(unyt.Unit(%r), %r%s)" % (ub, eq, kws)),
                                           ("to_value-positional", "q.to_value(%r, %r%s)" % (ub, eq, kws))]
                            sa, sb = float(Unit(ua).base_value), float(Unit(ub).base_value)
                            for dt in INT_DT:
                                d = np.dtype(dt)
                                cls_ = ("unsigned" if d.kind == "u" else "signed") + str(d.itemsize)
                                kb = "C17[equivalence-integer:%s:%s" % (eq, cls_)
                                for draw in range(draws):
                                    rng = random.Random("%d|eqint|%s|%s|%s|%s|%s|%d" % (seed, eq, ua, ub, dt, kws, draw))
                                    arrays, scalars = value_arrays(dt, rng)
                                    # scalars (unyt_quantity): quick tier on the first unit combination only
                                    first = (ua, ub) == (units_for(da, 1)[0], units_for(db, 1)[0])
                                    cases = [(vals, False) for _, vals in arrays] + ([([v], True) for v in scalars] if not draw and (first or R.thorough) else [])
                                    for vals, scalar in cases:
                                        xf = np.array(vals, dtype=dt).astype("float64")
                                        y, cond = formula(eq, da, db, xf * sa, k, kw)
                                        if y is None:
                                            if eq not in unknown:
                                                unknown.append(eq)
                                        else:
                                            with np.errstate(all="ignore"):
                                                y = y / sb
                                        for route, expr in routes:
                                            R.case("%s:%s:%s->%s%s:%s:%s:%s]" % (kb, route, ua, ub, kws, "scalar" if scalar else "array", vals[0], draw), nontrivial=True)
                                            one_case(fail, kb, eq, route, expr, vals, dt, ua, ub, scalar, y, cond)
    if unknown:
        R.notes.append("equivalence-integer: no independent formula for %s (compared with the float64 image only)" % unknown)


def one_case(fail, kb, eq, route, expr, vals, dt, ua, ub, scalar, y, cond):
    body0 = "q = mk(%r, %r, %r, %r)\nf = mk(%r, %r, %r, %r, as_float=True)\n" % (vals, dt, ua, scalar, vals, dt, ua, scalar)
    what0 = "%s on %s %s %s" % (expr, dt, vals, ua)
    f = mk(vals, dt, ua, scalar, as_float=True)
    try:
        with np.errstate(all="ignore"):
            ref = eval(expr, {"q": f, "unyt": unyt})
    except Exception:  # noqa  the float64 route itself refuses: nothing to compare with
        return
    q = mk(vals, dt, ua, scalar)
    try:
        with np.errstate(all="ignore"):
            r = eval(expr, {"q": q, "unyt": unyt})
    except Exception as e:  # noqa
        fail(kb + ":raises]", "%s raises %r; the same call on the float64 image of the data works" % (what0, e),
             body0 + "r0 = %s\ntry:\n    r = %s\nexcept Exception as e:\n    print(repr(e)); sys.exit(1)\n" % (expr.replace("q.", "f.", 1), expr))
        return
    rb, refb = np.asarray(r), np.asarray(ref, dtype="float64")
    if rb.dtype.kind != "f":
        fail(kb + ":dtype-kind]", "%s gives dtype %s, required a float type" % (what0, rb.dtype),
             body0 + "r = %s\nprint(np.asarray(r).dtype); sys.exit(0 if np.asarray(r).dtype.kind == 'f' else 1)\n" % expr)
        return
    if not route.startswith("to_value") and not (getattr(r, "units", None) == Unit(ub)):
        fail(kb + ":units]", "%s: result unit %s, required %s" % (what0, getattr(r, "units", None), ub),
             body0 + "r = %s\nprint(r.units); sys.exit(0 if r.units == unyt.Unit(%r) else 1)\n" % (expr, ub))
    bad = mismatch(rb, refb)
    if bad:
        i = bad[0]
        fail(kb + ":values]", "%s: element %d (input %d) is %r, the same call on the data cast to float64 first gives %r" % (
            what0, i, vals[i], np.atleast_1d(rb)[i], np.atleast_1d(refb)[i]),
            body0 + "r = %s\nr0 = %s\nprint(np.asarray(r), np.asarray(r0))\nbad = mismatch(r, r0)\nprint('mismatching elements:', bad)\nsys.exit(1 if bad else 0)\n" % (
                expr, expr.replace("q.", "f.", 1)))
    if y is not None:
        bad = mismatch(rb, y, rel=1e-9, cond=np.atleast_1d(cond).tolist())
        if bad:
            i = bad[0]
            fail(kb + ":formula]", "%s: element %d (input %d) is %r, the defining formula gives %r" % (what0, i, vals[i], np.atleast_1d(rb)[i], np.atleast_1d(y)[i]),
                 body0 + "r = %s\nexp = [float(s) for s in %r]\ncond = %r\nprint(np.asarray(r), exp)\nbad = mismatch(r, exp, rel=1e-9, cond=cond)\n"
                 "print('mismatching elements:', bad)\nsys.exit(1 if bad else 0)\n" % (expr, [repr(float(v)) for v in np.atleast_1d(y)], [float(c) for c in np.atleast_1d(cond)]))
