"""Ground (finite, exhaustive, exact) obligations over the tables extracted from the current
source by pyvc.ground.Tables.  Each function returns
{total, ok, failures:[{key, what, replay?}], samples, assumptions}."""
import os
import sys

import sympy

HERE = os.path.dirname(os.path.abspath(__file__))
sys.path.insert(0, HERE)
from pyvc.ground import Tables            # noqa: E402
from spec import unit_definitions as UD   # noqa: E402

_cache = {}


def tables(repo):
    if repo not in _cache:
        _cache[repo] = Tables(repo)
    return _cache[repo]


def _P(s):
    return sympy.sympify(s, rational=True)


def _same_exact(a, b):
    """exactly equal, or equal to within one binary64 ulp (a decimal literal in the source
    that is the correctly rounded value of the exact definition)"""
    if sympy.simplify(sympy.nsimplify(a) - sympy.nsimplify(b)) == 0:
        return True
    return abs(sympy.N(a, 40) - sympy.N(b, 40)) <= sympy.Rational(1, 2 ** 52) * abs(sympy.N(b, 40))


def _close(a, b, rtol):
    a, b = sympy.N(a, 30), sympy.N(b, 30)
    return abs(a - b) <= sympy.Rational(rtol) * abs(b)


REPLAY_UNIT = '''import sys
from fractions import Fraction as F
import unyt
u = unyt.Unit(%(sym)r)
print("Unit(%(sym)s): base_value =", repr(u.base_value), " offset =", u.base_offset, " dims =", u.dimensions)
want = %(want)s
print("definition:", want, " relative difference:", abs(u.base_value - want) / abs(want))
sys.exit(1 if abs(u.base_value - want) > %(rtol)s * abs(want) else 0)
'''


def g_unit_table(repo, tier):
    """C02.G1: every row of default_unit_symbol_lut agrees with its independent definition in
    scale (exactly for exactly-defined units, within the class tolerance for measured ones),
    dimension vector and offset; every SI prefix has its BIPM value."""
    T = tables(repo)
    total = ok = 0
    fails = []
    samples = []
    for sym, row in T.lut.items():
        total += 1
        spec = UD.UNITS.get(sym)
        if spec is None:
            fails.append({"key": "C02.G1[%s]" % sym, "what": "table symbol %r has no independent "
                          "definition in spec/unit_definitions.py" % sym})
            continue
        sscale, sdim, soff, cls = spec
        problems = []
        want_dim = [sympy.Rational(sdim.get(b, "0")) for b in T.base]
        got_dim = T.dimvec(row[1])
        if got_dim != want_dim:
            problems.append("dimension %s != %s" % (got_dim, want_dim))
        if sympy.nsimplify(row[2]) != _P(soff):
            problems.append("offset %s != %s" % (row[2], soff))
        want = _P(sscale)
        got = sympy.sympify(row[0])
        if cls == "exact":
            if not _same_exact(got, want):
                problems.append("scale %s != exact definition %s (rel. diff %.3g)" % (
                    sympy.N(got, 12), sympy.N(want, 12), float(abs(sympy.N(got - want) / sympy.N(want)))))
        elif cls == "conv":
            if not (sympy.N(got) > 0 if cls == "conv" and sym != "lat" else True):
                problems.append("scale not positive")
        else:
            if not _close(got, want, UD.RTOL[cls]):
                problems.append("scale %s not within %s of published %s" % (
                    sympy.N(got, 12), UD.RTOL[cls], sympy.N(want, 12)))
        if not isinstance(row[4], bool):
            problems.append("prefixable flag is not a bool")
        if problems:
            fails.append({"key": "C02.G1[%s]" % sym, "what": "; ".join(problems),
                          "replay": REPLAY_UNIT % {"sym": sym, "want": repr(float(sympy.N(want, 20))),
                                                    "rtol": "1e-12" if cls == "exact" else UD.RTOL.get(cls, "1")}})
        else:
            ok += 1
            if len(samples) < 3:
                samples.append({"symbol": sym, "scale": str(got)[:40], "class": cls})
    for p, v in T.prefixes.items():
        total += 1
        spec = UD.PREFIXES.get(p)
        if spec is None or sympy.nsimplify(v[0]) != sympy.Integer(10) ** spec[0] or v[1] != spec[1]:
            fails.append({"key": "C02.G1[prefix %s]" % p, "what": "prefix %r = %s, BIPM %s" % (p, v, spec)})
        else:
            ok += 1
    for p in UD.PREFIXES:
        total += 1
        if p in T.prefixes:
            ok += 1
        else:
            fails.append({"key": "C02.G1[prefix %s missing]" % p, "what": "SI prefix %r missing" % p})
    return {"total": total, "ok": ok, "failures": fails, "samples": samples,
            "assumptions": ["spec/unit_definitions.py (independent definitions, written by hand)",
                            "sympy exact arithmetic (ground evaluator)"]}
