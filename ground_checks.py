"""Ground (finite, exhaustive, exact) obligations over the tables extracted from the current
source by pyvc.ground.Tables.  Each function returns
{total, ok, failures:[{key, what, replay?}], samples, assumptions}."""
import os
import sys

import sympy

HERE = os.path.dirname(os.path.abspath(__file__))
sys.path.insert(0, HERE)
from pyvc.ground import Tables            # noqa: E402
from spec import unit_definitions as UD   # noqa: E402

_cache = {}


def tables(repo):
    if repo not in _cache:
        _cache[repo] = Tables(repo)
    return _cache[repo]


def _P(s):
    return sympy.sympify(s, rational=True)


def _same_exact(a, b):
    """exactly equal, or equal to within one binary64 ulp (a decimal literal in the source
    that is the correctly rounded value of the exact definition)"""
    if sympy.simplify(sympy.nsimplify(a) - sympy.nsimplify(b)) == 0:
        return True
    return abs(sympy.N(a, 40) - sympy.N(b, 40)) <= sympy.Rational(1, 2 ** 52) * abs(sympy.N(b, 40))


def _close(a, b, rtol):
    a, b = sympy.N(a, 30), sympy.N(b, 30)
    return abs(a - b) <= sympy.Rational(rtol) * abs(b)


REPLAY_UNIT = '''import sys
from fractions import Fraction as F
import unyt
u = unyt.Unit(%(sym)r)
print("Unit(%(sym)s): base_value =", repr(u.base_value), " offset =", u.base_offset, " dims =", u.dimensions)
want = %(want)s
print("definition:", want, " relative difference:", abs(u.base_value - want) / abs(want))
sys.exit(1 if abs(u.base_value - want) > %(rtol)s * abs(want) else 0)
'''


def g_unit_table(repo, tier):
    """C02.G1: every row of default_unit_symbol_lut agrees with its independent definition in
    scale (exactly for exactly-defined units, within the class tolerance for measured ones),
    dimension vector and offset; every SI prefix has its BIPM value."""
    T = tables(repo)
    total = ok = 0
    fails = []
    samples = []
    for sym, row in T.lut.items():
        total += 1
        spec = UD.UNITS.get(sym)
        if spec is None:
            fails.append({"key": "C02.G1[%s]" % sym, "what": "table symbol %r has no independent "
                          "definition in spec/unit_definitions.py" % sym})
            continue
        sscale, sdim, soff, cls = spec
        problems = []
        want_dim = [sympy.Rational(sdim.get(b, "0")) for b in T.base]
        got_dim = T.dimvec(row[1])
        if got_dim != want_dim:
            problems.append("dimension %s != %s" % (got_dim, want_dim))
        if sympy.nsimplify(row[2]) != _P(soff):
            problems.append("offset %s != %s" % (row[2], soff))
        want = _P(sscale)
        got = sympy.sympify(row[0])
        if cls == "exact":
            if not _same_exact(got, want):
                problems.append("scale %s != exact definition %s (rel. diff %.3g)" % (
                    sympy.N(got, 12), sympy.N(want, 12), float(abs(sympy.N(got - want) / sympy.N(want)))))
        elif cls == "conv":
            if not (sympy.N(got) > 0 if cls == "conv" and sym != "lat" else True):
                problems.append("scale not positive")
        else:
            if not _close(got, want, UD.RTOL[cls]):
                problems.append("scale %s not within %s of published %s" % (
                    sympy.N(got, 12), UD.RTOL[cls], sympy.N(want, 12)))
        if not isinstance(row[4], bool):
            problems.append("prefixable flag is not a bool")
        if problems:
            fails.append({"key": "C02.G1[%s]" % sym, "what": "; ".join(problems),
                          "replay": REPLAY_UNIT % {"sym": sym, "want": repr(float(sympy.N(want, 20))),
                                                    "rtol": "1e-12" if cls == "exact" else UD.RTOL.get(cls, "1")}})
        else:
            ok += 1
            if len(samples) < 3:
                samples.append({"symbol": sym, "scale": str(got)[:40], "class": cls})
    for p, v in T.prefixes.items():
        total += 1
        spec = UD.PREFIXES.get(p)
        if spec is None or sympy.nsimplify(v[0]) != sympy.Integer(10) ** spec[0] or v[1] != spec[1]:
            fails.append({"key": "C02.G1[prefix %s]" % p, "what": "prefix %r = %s, BIPM %s" % (p, v, spec)})
        else:
            ok += 1
    for p in UD.PREFIXES:
        total += 1
        if p in T.prefixes:
            ok += 1
        else:
            fails.append({"key": "C02.G1[prefix %s missing]" % p, "what": "SI prefix %r missing" % p})
    return {"total": total, "ok": ok, "failures": fails, "samples": samples,
            "assumptions": ["spec/unit_definitions.py (independent definitions, written by hand)",
                            "sympy exact arithmetic (ground evaluator)"]}


# ------------------------------------------------------------------------------ C15
def _unit_expr_eval(T, text):
    """independent evaluator of a unit expression string over the extracted table:
    names (symbol or SI prefix + prefixable symbol), * / ** and numbers -> (scale, dimvec)"""
    import ast as _ast

    def lookup(name):
        if name in T.lut:
            r = T.lut[name]
            return sympy.sympify(r[0]), T.dimvec(r[1])
        for p, (pv, _) in T.prefixes.items():
            rest = name[len(p):]
            if name.startswith(p) and rest in T.lut and T.lut[rest][4]:
                r = T.lut[rest]
                return sympy.sympify(r[0]) * sympy.nsimplify(pv), T.dimvec(r[1])
        raise KeyError(name)

    def ev(n):
        if isinstance(n, _ast.Name):
            return lookup(n.id)
        if isinstance(n, _ast.Constant):
            return sympy.nsimplify(n.value), [sympy.Integer(0)] * len(T.base)
        if isinstance(n, _ast.UnaryOp) and isinstance(n.op, _ast.USub):
            s, d = ev(n.operand)
            return -s, d
        if isinstance(n, _ast.BinOp):
            if isinstance(n.op, _ast.Pow):
                s, d = ev(n.left)
                e, _ = ev(n.right)
                return s ** e, [x * e for x in d]
            a, da = ev(n.left)
            b, db = ev(n.right)
            if isinstance(n.op, _ast.Mult):
                return a * b, [x + y for x, y in zip(da, db)]
            if isinstance(n.op, _ast.Div):
                return a / b, [x - y for x, y in zip(da, db)]
        raise ValueError("unit expression %r" % text)
    return ev(_ast.parse(text, mode="eval").body)


REPLAY_CONST = '''import sys
import unyt
from unyt import physical_constants as pc
q = getattr(pc, %(name)r)
print(%(name)r, "=", repr(q), " in mks:", repr(q.in_mks()))
%(body)s
'''


def g_constants(repo, tier):
    """C15: defining relations hold symbolically (for arbitrary values of the primitive
    measured numbers), every constant agrees with its independent value within its class,
    a name that is both a unit and a constant is one quantity, names are single-valued."""
    from spec import constants as SC
    T = tables(repo)
    key_sym = ("sym", repo)
    if key_sym not in _cache:
        _cache[key_sym] = Tables(repo, symbolic=True)
    TS = _cache[key_sym]
    total = ok = 0
    fails = []
    samples = []

    def si(TT, name):
        value, unit_name, _aliases = TT.constants[name]
        s, dv = _unit_expr_eval(TT, unit_name)
        return sympy.sympify(value) * s, dv

    # 1. coverage both ways
    for name in T.constants:
        total += 1
        if name in SC.VALUES:
            ok += 1
        else:
            fails.append({"key": "C15.G[%s:no-spec]" % name, "what": "constant %r has no independent "
                          "value in spec/constants.py" % name})
    for name in SC.VALUES:
        total += 1
        if name in T.constants:
            ok += 1
        else:
            fails.append({"key": "C15.G[%s:missing]" % name, "what": "constant %r is not in the "
                          "physical_constants table" % name})
    # 2. values and dimensions
    for name in T.constants:
        if name not in SC.VALUES:
            continue
        total += 1
        want, wdim, cls = SC.VALUES[name]
        try:
            got, gdim = si(T, name)
        except Exception as e:
            fails.append({"key": "C15.G[%s:value]" % name, "what": "cannot evaluate: %r" % (e,)})
            continue
        want = _P(want)
        want_dim = [sympy.Rational(wdim.get(b, "0")) for b in T.base]
        problems = []
        if gdim != want_dim:
            problems.append("dimension %s != %s" % (gdim, want_dim))
        if cls == "exact":
            if not _same_exact(got, want):
                problems.append("value %s != defined value %s" % (sympy.N(got, 15), sympy.N(want, 15)))
        elif not _close(got, want, SC.RTOL[cls]):
            problems.append("value %s not within %s of the published %s" % (
                sympy.N(got, 12), SC.RTOL[cls], sympy.N(want, 12)))
        if problems:
            fails.append({"key": "C15.G[%s:value]" % name, "what": "; ".join(problems),
                          "replay": REPLAY_CONST % {"name": name, "body":
                              "want = %r\nv = float(q.in_mks().v)\nprint('published', want)\n"
                              "sys.exit(1 if abs(v-want) > %s*abs(want) else 0)" % (
                                  float(sympy.N(want, 17)), SC.RTOL.get(cls, "1e-12"))}})
        else:
            ok += 1
            if len(samples) < 3:
                samples.append({"constant": name, "si_value": str(sympy.N(got, 12)), "class": cls})
    # 3. defining relations, symbolically in the primitives
    symvals = {}
    for name in TS.constants:
        try:
            symvals[name] = si(TS, name)[0]
        except Exception:
            pass
    for label, expr in SC.RELATIONS.items():
        total += 1
        try:
            loc = {k: v for k, v in symvals.items()}
            loc["pi"] = sympy.pi
            e = sympy.sympify(expr, locals=loc)
            z = sympy.simplify(e)
            if z != 0:
                z = sympy.simplify(sympy.expand(sympy.powdenest(e, force=True)))
        except Exception as ex:
            fails.append({"key": "C15.P1[%s]" % label, "what": "cannot evaluate relation: %r" % (ex,)})
            continue
        if z == 0:
            ok += 1
            if len(samples) < 5:
                samples.append({"relation": label, "holds_for": "all values of the primitive numbers"})
        else:
            fails.append({"key": "C15.P1[%s]" % label,
                          "what": "relation does not hold identically: residual %s" % str(z)[:200]})
    # 4. unit == constant for names that are both
    for name in SC.UNIT_AND_CONSTANT:
        total += 1
        if name not in T.lut or name not in T.constants:
            fails.append({"key": "C15.G2[%s]" % name, "what": "expected both a unit and a constant named %r" % name})
            continue
        cs, cd = si(TS, name)
        us, ud = sympy.sympify(TS.lut[name][0]), TS.dimvec(TS.lut[name][1])
        cn, _ = si(T, name)
        un = sympy.sympify(T.lut[name][0])
        if cd == ud and sympy.simplify(cs - us) == 0 and _same_exact(cn, un):
            ok += 1
        else:
            fails.append({"key": "C15.G2[%s]" % name,
                          "what": "unit %s = %s (dims %s) but constant %s = %s (dims %s)" % (
                              name, sympy.N(un, 12), ud, name, sympy.N(cn, 12), cd),
                          "replay": "import sys, unyt\nfrom unyt import physical_constants as pc\n"
                                    "u = (1.0*unyt.Unit(%r)).in_mks(); c = getattr(pc, %r).in_mks()\n"
                                    "print('unit', u, 'constant', c)\n"
                                    "sys.exit(1 if abs(float(u.v)-float(c.v)) > 1e-12*abs(float(c.v)) else 0)\n" % (name, name)})
    # 5. names single-valued
    seen = {}
    for name, (value, unit_name, aliases) in T.constants.items():
        for n in [name] + list(aliases):
            total += 1
            if n in seen and seen[n] != name:
                fails.append({"key": "C15.G[%s:duplicate-name]" % n,
                              "what": "name %r is listed for both %r and %r" % (n, seen[n], name)})
            else:
                ok += 1
                seen[n] = name
    return {"total": total, "ok": ok, "failures": fails, "samples": samples,
            "assumptions": ["spec/constants.py (independent values and defining relations, written by hand)",
                            "sympy exact arithmetic and simplification (ground evaluator)",
                            "symbolic mode: numeric literals assigned at the top level of "
                            "_physical_ratios.py are free positive symbols; everything else in the two "
                            "table modules is executed as written"]}


# ------------------------------------------------------------------------------ C01 / C04
def ufunc_registry(repo):
    """{ufunc name: rule name} read from the class body of unyt_array (dict literal
    `_ufunc_registry` plus the `_ufunc_registry[x] = rule` statements) and the tuple of rules in
    `if unit_operator in (...)` of __array_ufunc__ -- from the AST, nothing imported"""
    import ast
    path = os.path.join(repo, "unyt", "array.py")
    tree = ast.parse(open(path).read())
    alias = {}
    for st in tree.body:
        if isinstance(st, ast.ImportFrom) and st.module == "numpy":
            for a in st.names:
                alias[a.asname or a.name] = a.name
    reg, checked = {}, None
    for node in ast.walk(tree):
        if isinstance(node, ast.ClassDef) and node.name == "unyt_array":
            for st in ast.walk(node):
                if isinstance(st, ast.Assign) and isinstance(st.targets[0], ast.Name) and \
                        st.targets[0].id == "_ufunc_registry" and isinstance(st.value, ast.Dict):
                    for k, v in zip(st.value.keys, st.value.values):
                        reg[alias.get(k.id, k.id)] = v.id
                elif isinstance(st, ast.Assign) and isinstance(st.targets[0], ast.Subscript) and \
                        getattr(st.targets[0].value, "id", None) == "_ufunc_registry":
                    k = st.targets[0].slice
                    reg[alias.get(k.id, k.id)] = st.value.id
                elif isinstance(st, ast.FunctionDef) and st.name == "__array_ufunc__":
                    for c in ast.walk(st):
                        if isinstance(c, ast.Compare) and isinstance(c.left, ast.Name) and \
                                c.left.id == "unit_operator" and isinstance(c.ops[0], ast.In) and \
                                isinstance(c.comparators[0], ast.Tuple):
                            names = {e.id for e in c.comparators[0].elts}
                            if "_preserve_units" in names or checked is None:
                                checked = names
    return reg, checked


REPLAY_UFUNC_CLASS = '''import sys, numpy as np, unyt
from unyt import km, s
try:
    r = np.%(uf)s(7 * km, 2 * s)
except Exception as e:
    print("refused:", type(e).__name__); sys.exit(0)
print("np.%(uf)s(7 km, 2 s) returned", r); sys.exit(1)
'''


def g_ufunc_classes(repo, tier):
    """C01.G1 / C04.G: every commensurability-requiring ufunc is mapped to a unit rule for
    which the dispatcher runs its dimension check; the rule table matches the classification
    the statements imply; every classified ufunc is present in the table."""
    from spec import ufunc_classes as UC
    reg, checked = ufunc_registry(repo)
    total = ok = 0
    fails, samples = [], []

    allkeys = []

    def ob(key, cond, what, replay=None):
        nonlocal total, ok
        total += 1
        allkeys.append((key, bool(cond)))
        if cond:
            ok += 1
            if len(samples) < 4:
                samples.append({"obligation": key})
        else:
            fails.append({"key": key, "what": what, "replay": replay})

    ob("C01.G1[checked-rule-set]", checked is not None and UC.CHECKED_RULES <= checked,
       "the dispatcher's dimension check covers rules %s, the statement needs %s" % (
           sorted(checked or []), sorted(UC.CHECKED_RULES)))
    for uf in sorted(UC.COMMENSURABLE):
        rule = reg.get(uf)
        ob("C01.G1[%s]" % uf, rule in UC.CHECKED_RULES and (checked is None or rule in checked),
           "ufunc %s needs commensurable operands but is mapped to the rule %s, for which the "
           "dispatcher performs no dimension check" % (uf, rule),
           REPLAY_UFUNC_CLASS % {"uf": uf})
    for uf, rule in sorted(UC.MULTIPLICATIVE.items()):
        ob("C04.G[%s]" % uf, reg.get(uf) == rule, "ufunc %s mapped to %s, dimensional analysis "
           "needs %s" % (uf, reg.get(uf), rule))
    for uf, rule in sorted(UC.POWER_RULES.items()):
        ob("C04.G[%s]" % uf, reg.get(uf) == rule, "ufunc %s mapped to %s, needs %s" % (uf, reg.get(uf), rule))
    for uf in sorted(UC.PASSTHROUGH_1):
        ob("C04.G[%s]" % uf, reg.get(uf) == "_passthrough_unit", "ufunc %s mapped to %s, the result "
           "must keep the operand's unit" % (uf, reg.get(uf)))
    for uf in sorted(UC.UNIT_IGNORING):
        ob("C04.G[%s]" % uf, reg.get(uf) == "_return_without_unit", "ufunc %s mapped to %s; it is "
           "documented to return bare numbers" % (uf, reg.get(uf)))
    for uf in sorted(UC.BITWISE_REFUSED):
        ob("C04.G[%s]" % uf, reg.get(uf) in ("_bitop_units", "_invert_units"),
           "bit-twiddling ufunc %s mapped to %s" % (uf, reg.get(uf)))
    return {"total": total, "ok": ok, "failures": fails, "samples": samples, "keys": allkeys,
            "assumptions": ["spec/ufunc_classes.py (classification written from the statements)"]}


def _filtered(fn, prefix):
    def g(repo, tier):
        r = fn(repo, tier)
        keys = [(k, c) for k, c in r["keys"] if k.startswith(prefix)]
        return dict(r, failures=[f for f in r["failures"] if f["key"].startswith(prefix)],
                    total=len(keys), ok=sum(1 for _, c in keys if c),
                    samples=[{"obligation": k} for k, c in keys[:3]])
    g.__name__ = fn.__name__ + "[" + prefix + "]"
    return g
