#!/usr/bin/env python3-vt
"""Mutation campaign against the proof layer (hand-run, not part of any check).

  tools/mutcampaign.py <file-under-unyt> <function-name>[,<function-name>...] <contract-module>[:filter][,...] [--max N] [--out file]

For every mutant of the named functions (comparison / boolean / arithmetic operator swaps, negated
conditions, off-by-one constants, swapped sibling names, deleted statements) a scratch copy of the
package is written under /tmp/mutc/<pid>/<n>/repo and the contracts of the given modules are
verified against it.  Verdict per mutant: caught (a proof obligation fails), undecided (only
undecided paths / unknowns), survived (everything proved).  Survivors are then run against the
pinned test baseline (tools/baseline_check.py) to separate the mutants the existing tests kill
from the ones only stronger contracts (or a bounded driver) can see.  Scratch copies are removed.
"""
import ast, copy, json, os, shutil, subprocess, sys, tempfile, time

HERE = os.path.dirname(os.path.dirname(os.path.abspath(__file__)))
CMP = {ast.Eq: ast.NotEq, ast.NotEq: ast.Eq, ast.Lt: ast.LtE, ast.LtE: ast.Lt, ast.Gt: ast.GtE,
       ast.GtE: ast.Gt, ast.Is: ast.IsNot, ast.IsNot: ast.Is, ast.In: ast.NotIn, ast.NotIn: ast.In}
BIN = {ast.Mult: ast.Div, ast.Div: ast.Mult, ast.Add: ast.Sub, ast.Sub: ast.Add, ast.Pow: ast.Mult}
SIB = [("u0", "u1"), ("unit1", "unit2"), ("inp0", "inp1"), ("i0", "i1"), ("self", "other"),
       ("base_value", "base_offset"), ("conv", "offset"), ("new_units", "units")]


def sites(fn):
    """(description, mutate(node_copy_root) -> None) for every mutation site inside fn"""
    out = []
    for idx, node in enumerate(ast.walk(fn)):
        if isinstance(node, ast.Compare):
            for i, op in enumerate(node.ops):
                if type(op) in CMP:
                    out.append((idx, "cmp%d %s->%s" % (i, type(op).__name__, CMP[type(op)].__name__),
                                lambda n, i=i: n.ops.__setitem__(i, CMP[type(n.ops[i])]())))
        elif isinstance(node, ast.BoolOp):
            out.append((idx, "bool %s" % type(node.op).__name__,
                        lambda n: setattr(n, "op", ast.Or() if isinstance(n.op, ast.And) else ast.And())))
        elif isinstance(node, ast.BinOp) and type(node.op) in BIN:
            out.append((idx, "bin %s->%s" % (type(node.op).__name__, BIN[type(node.op)].__name__),
                        lambda n: setattr(n, "op", BIN[type(n.op)]())))
        elif isinstance(node, (ast.If, ast.IfExp, ast.While)):
            out.append((idx, "negate condition", lambda n: setattr(n, "test", ast.UnaryOp(ast.Not(), n.test))))
        elif isinstance(node, ast.UnaryOp) and isinstance(node.op, ast.Not):
            out.append((idx, "drop not", "DROP_NOT"))
        elif isinstance(node, ast.Constant) and isinstance(node.value, bool):
            out.append((idx, "bool const flip", lambda n: setattr(n, "value", not n.value)))
        elif isinstance(node, ast.Constant) and isinstance(node.value, int) and -3 <= node.value <= 3:
            out.append((idx, "const %d+1" % node.value, lambda n: setattr(n, "value", n.value + 1)))
        elif isinstance(node, ast.Name):
            for a, b in SIB:
                if node.id in (a, b):
                    out.append((idx, "name %s<->%s" % (a, b),
                                lambda n, a=a, b=b: setattr(n, "id", b if n.id == a else a)))
        elif isinstance(node, (ast.Expr, ast.AugAssign, ast.Raise, ast.Delete)) and not (
                isinstance(node, ast.Expr) and isinstance(node.value, ast.Constant)):
            out.append((idx, "delete %s" % type(node).__name__, "DELETE"))
    return out


class _Del(ast.NodeTransformer):
    def __init__(self, target):
        self.target = target

    def generic_visit(self, node):
        for f, old in ast.iter_fields(node):
            if isinstance(old, list):
                for i, v in enumerate(old):
                    if v is self.target:
                        old[i] = ast.Pass()
                        return node
        return super().generic_visit(node)


def mutants(path, fnames):
    src = open(path).read()
    tree = ast.parse(src)
    found = []
    for node in ast.walk(tree):
        if isinstance(node, (ast.FunctionDef,)) and node.name in fnames:
            found.append(node)
    for fn in found:
        base = sites(fn)
        for k, (idx, desc, mut) in enumerate(base):
            t2 = copy.deepcopy(tree)
            fn2 = [n for n in ast.walk(t2) if isinstance(n, ast.FunctionDef) and n.name == fn.name
                   and n.lineno == fn.lineno][0]
            node = list(ast.walk(fn2))[idx]
            line = getattr(node, "lineno", fn.lineno)
            if mut == "DELETE":
                _Del(node).visit(fn2)
            elif mut == "DROP_NOT":
                class R(ast.NodeTransformer):
                    def visit_UnaryOp(self, n):
                        self.generic_visit(n)
                        return n.operand if n is node else n
                R().visit(fn2)
            else:
                mut(node)
            ast.fix_missing_locations(t2)
            try:
                text = ast.unparse(t2)
                compile(text, path, "exec")
            except Exception:
                continue
            yield {"function": fn.name, "line": line, "what": desc,
                   "source_line": src.splitlines()[line - 1].strip()[:100]}, text


JOB = r'''
import sys, os, json
sys.path.insert(0, %(here)r)
from pyvc import run as R
import importlib
jobs = []
for spec in %(mods)r:
    mod, _, flt = spec.partition(":")
    m = importlib.import_module(mod)
    names = getattr(m, "ALL", None)
    if names is None:
        from pyvc.contracts import Contract
        names = [k for k, v in vars(m).items() if isinstance(v, type) and issubclass(v, Contract)
                 and v.__module__ == mod and v.name and not getattr(v, "trusted", False)]
    pats = flt.split("|")
    jobs += [(mod, n) for n in names if any(p == n or (p and p[-1] == "*" and n.startswith(p[:-1])) or not p for p in pats)]
reps = R.run_pool(R.run_proof_job, [(%(repo)r, j) for j in jobs])
failed = sorted(set("%%s: %%s" %% (r["job"].split(".")[-1], f["label"][:90]) for r in reps for f in r["failed"]))
und = sorted(set("%%s: %%s" %% (r["job"].split(".")[-1], (r["undecided_paths"] + r["unknown"] + [r.get("error") or ""])[0][:90])
                 for r in reps if r["undecided_paths"] or r["unknown"] or r.get("error") or r["obligations"] == 0))
print("MUTJOB " + json.dumps({"failed": failed, "undecided": und}))
'''


def main():
    args = [a for a in sys.argv[1:] if not a.startswith("--")]
    opts = dict(a[2:].split("=", 1) for a in sys.argv[1:] if a.startswith("--") and "=" in a)
    rel, fnames, mods = args[0], set(args[1].split(",")), args[2].split(",")
    mx = int(opts.get("max", "100000"))
    out = opts.get("out", "/tmp/mutc_%s.jsonl" % rel.replace("/", "_"))
    # baseline failures of the unchanged tree are not the mutant's doing
    def run(repo):
        p = subprocess.run(["python3-vt", "-c", JOB % {"here": HERE, "mods": mods, "repo": repo}],
                           capture_output=True, text=True, env=dict(os.environ, PYVC_REPO=repo), timeout=3600)
        line = [l for l in p.stdout.splitlines() if l.startswith("MUTJOB ")]
        if not line:
            return {"failed": [], "undecided": ["job crashed: " + (p.stderr or p.stdout)[-200:]]}
        return json.loads(line[0][7:])
    base = run("/repo")
    if any(u.startswith("job crashed") for u in base["undecided"]):
        print(base); sys.exit(3)
    print("baseline: failed", len(base["failed"]), "undecided", len(base["undecided"]), flush=True)
    n = 0
    stats = {"caught": 0, "undecided": 0, "survived": 0}
    par = int(opts.get("par", "4"))
    from concurrent.futures import ThreadPoolExecutor

    def one(item):
        info, text = item
        d = tempfile.mkdtemp(prefix="mutc_")
        try:
            os.makedirs(os.path.join(d, "repo"))
            shutil.copytree("/repo/unyt", os.path.join(d, "repo", "unyt"),
                            ignore=shutil.ignore_patterns("__pycache__", "tests"))
            open(os.path.join(d, "repo", "unyt", rel), "w").write(text)
            r = run(os.path.join(d, "repo"))
            newf = [f for f in r["failed"] if f not in base["failed"]]
            newu = [u for u in r["undecided"] if u not in base["undecided"]]
            verdict = "caught" if newf else ("undecided" if newu else "survived")
            info.update({"verdict": verdict, "failed": newf[:3], "undecided": newu[:2]})
            return info
        finally:
            shutil.rmtree(d, ignore_errors=True)

    items = []
    lo, hi = (int(x) for x in opts.get("lines", "0-100000000").split("-"))
    only = opts.get("only")            # file with "line|what" keys of the mutants to re-run
    keys = set(open(only).read().split("\n")) if only else None
    for item in mutants(os.path.join("/repo/unyt", rel), fnames):
        if len(items) >= mx:
            break
        if not (lo <= item[0]["line"] <= hi):
            continue
        if keys is not None and "%d|%s" % (item[0]["line"], item[0]["what"]) not in keys:
            continue
        items.append(item)
    with open(out, "w") as fo, ThreadPoolExecutor(par) as tp:
        for info in tp.map(one, items):
            n += 1
            stats[info["verdict"]] += 1
            fo.write(json.dumps(info) + "\n")
            fo.flush()
            print("%-9s %s:%d %-28s | %s" % (info["verdict"], info["function"], info["line"], info["what"],
                                            info["source_line"][:70]), flush=True)
    print("TOTAL", n, stats)


if __name__ == "__main__":
    main()
