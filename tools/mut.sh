#!/bin/bash
# usage: mut.sh '<sed expr>' <file-under-unyt> <ID> [vcheck args]  -- apply a sed edit on a scratch copy and run a check
set -e
sedexpr="$1"; file="$2"; id="$3"; shift 3
d=$(mktemp -d /tmp/mutXXXX)
mkdir -p $d/repo && cp -r /repo/unyt $d/repo/ && rm -rf $d/repo/unyt/__pycache__
sed -i "$sedexpr" $d/repo/unyt/$file
diff -u /repo/unyt/$file $d/repo/unyt/$file | head -20 || true
cd /verif && python3-vt vcheck.py $id --repo $d/repo --evidence-dir $d/ev "$@" | cut -c1-400; rc=${PIPESTATUS[0]}
rm -rf $d
echo "rc=$rc"
