#!/usr/bin/env python3
"""keepseed.py <seed-dir> <PROP> [PROP...]: confirm a seeded change in a scratch worktree (baseline,
demo on /repo, demo on the seeded tree), run the named checks against it, and store it under
/verif/seeded/<id>/ (patch.diff, demo.py, meta.json with what was run and what each check said)."""
import json, os, shutil, subprocess, sys
sd = sys.argv[1].rstrip("/"); props = sys.argv[2:]
sid = os.path.basename(sd)
here = os.path.dirname(os.path.dirname(os.path.abspath(__file__)))
out = subprocess.run([os.path.join(here, "tools", "seedtest.sh"), sd] + props, capture_output=True, text=True).stdout
print(out)
lines = out.splitlines()
meta = json.load(open(os.path.join(sd, "meta.json")))
conf = {"baseline": next((l for l in lines if l.startswith("== baseline")), ""),
        "demo_on_repo": next((l for l in lines if l.startswith("== demo on /repo")), ""),
        "demo_on_seeded_tree": next((l for l in lines if l.startswith("== demo on seeded")), "")}
ok = "missing=0" in conf["baseline"] and conf["demo_on_repo"].endswith("exit 0") and conf["demo_on_seeded_tree"].endswith("exit 1")
checks = {}
cur = None
for l in lines:
    if l.startswith("== check "):
        cur = l.split()[2].rstrip(":"); checks[cur] = {"exit": int(l.rsplit(" ", 1)[1]), "first_lines": []}
    elif cur and (l.startswith("violated") or l.startswith("VIOLATION")):
        if len(checks[cur]["first_lines"]) < 4:
            checks[cur]["first_lines"].append(l[:240])
meta.update({"breaks_property": meta.get("property"), "confirmed_by_me": conf, "confirmed": ok,
             "what_i_ran": "tools/seedtest.sh (scratch git worktree of /repo HEAD %s, patch applied, "
                           "baseline_check, demo on both trees, ./check <P> --repo <worktree>); worktree removed" % (
                               subprocess.run(["git", "-C", "/repo", "rev-parse", "--short", "HEAD"], capture_output=True, text=True).stdout.strip()),
             "checks": checks, "caught_by": sorted(p for p, c in checks.items() if c["exit"] == 1)})
if not ok:
    print("NOT CONFIRMED - not kept"); sys.exit(1)
dst = os.path.join(here, "seeded", sid)
os.makedirs(dst, exist_ok=True)
for f in ("patch.diff", "demo.py"):
    shutil.copy(os.path.join(sd, f), os.path.join(dst, f))
json.dump(meta, open(os.path.join(dst, "meta.json"), "w"), indent=1)
print("kept", dst, "caught_by", meta["caught_by"])
