#!/bin/bash
# usage: applyfix.sh <diff-file> "<commit message starting with fix:>"
# applies one repair to /repo, runs the pinned baseline (652 stable tests must pass), commits it on its own
set -e -o pipefail
diff="$1"; msg="$2"
cd /repo
if ! git apply --check "$diff" 2>/dev/null; then
  if git apply --check -C1 "$diff" 2>/dev/null; then opt="-C1"; else
    echo "APPLY-CONFLICT: $diff"; git apply --3way "$diff" || { echo "3way failed"; git reset -q --hard HEAD; exit 2; }; opt="done"; fi
fi
[ "$opt" = "done" ] || git apply $opt "$diff"
if ! python3 /verif/tools/baseline_check.py /repo | tail -3; then echo "BASELINE BROKEN by $diff"; git reset -q --hard HEAD; exit 3; fi
git add -A unyt; git commit -qm "$msg"; git log --oneline -1
