#!/usr/bin/env python3
"""Hand-run bookkeeping: turn known-finding entries that were repaired by a 'fix:' commit in /repo
into status=fixed entries (they suppress nothing; kept as the record required by the brief)."""
import json, os
here = os.path.dirname(os.path.dirname(os.path.abspath(__file__)))
FIXED = {
 "KF-C01-int-out-retyped-before-check": "33de10e", "KF-C01-copyto-where-mixes-units": "db2c8e5",
 "KF-C01-reduce-initial-unit-dropped": "6262ffb",
 "KF-C04-floordiv-commensurable-units": "f27763d", "KF-C04-divmod-ignores-second-unit": "f27763d",
 "KF-C04-product-reduce-default-axis": "8be1d8e", "KF-C04-kelvin-difference-other-unit-raises": "39aab16",
 "KF-C04-out-postmultiply-recursion": "adfdb41",
 "KF-C06-hstack-calls-vstack": "10730bc", "KF-C06-stack-drops-kwargs": "99edc5b",
 "KF-C06-einsum-drops-kwargs": "534c7fe", "KF-C06-histogramdd-array-sample-transposed": "08a48a8",
 "KF-C07-ndarray-dot-value": "4689fc2", "KF-C07-ndarray-std-slot-O-value": "b23a68a",
 "KF-C07-np-std-slot-O-value": "b23a68a", "KF-C07-np-einsum-value": "e331a2a",
 "KF-C07-np-einsum-slot-O-value": "e331a2a", "KF-C07-np-linalg-det-value": "5a62aa7",
 "KF-C07-np-nanpercentile-slot-O-value": "bc1dc11", "KF-C07-np-nanpercentile-units-dropped": "bc1dc11",
 "KF-C07-np-nanpercentile-value": "bc1dc11", "KF-C07-np-nanquantile-slot-O-value": "af62a89",
 "KF-C07-np-nanquantile-units-dropped": "af62a89", "KF-C07-np-nanquantile-value": "af62a89",
 "KF-C08-diff-plus-point-degree-size": "eb55bbc", "KF-C08-diff-plus-point-degree": "eb55bbc",
 "KF-C08-diff-helper-delta-degC-label": "9fa1ed0", "KF-C08-difference-units-name-substring": "39aab16",
 "KF-C08-remainder-family-not-refused": "259feaf", "KF-C08-binary-refusal-after-write": "c972c4d",
 "KF-C08-unary-refusal-after-write": "a967bae",
 "KF-C09-inplace-cancelling-unit-recursion": "adfdb41", "KF-C09-copy-form-integer-arithmetic": "04f344a",
 "KF-C11-dims-identity-array-pickle": "ebb2e6a", "KF-C11-dims-identity-deepcopy": "ad026eb",
 "KF-C11-dims-identity-unit-copy": "fbb443f", "KF-C11-unit-system-lost-deepcopy": "ad026eb",
 "KF-C11-registry-deepcopy-readds-defaults": "ad026eb", "KF-C11-delta-degree-str-unparseable": "93e7c8b",
 "KF-C11-loadtxt-single-row": "fab5381", "KF-C11-list-same-dimensions-identity": "4fc5272",
}
FIXED.update(json.load(open(os.path.join(here, "tools", "fixed_more.json"))) if os.path.exists(os.path.join(here, "tools", "fixed_more.json")) else {})
p = os.path.join(here, "known_findings.json")
d = json.load(open(p))
n = 0
for f in d["findings"]:
    if f["id"] in FIXED and f.get("status") == "known":
        f["status"] = "fixed"
        f["commit"] = FIXED[f["id"]]
        f["what"] = "fixed: property=%s %s %s" % (f["property"], FIXED[f["id"]], f["what"])
        n += 1
json.dump(d, open(p, "w"), indent=1, ensure_ascii=False)
print("marked fixed:", n)
