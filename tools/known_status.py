#!/usr/bin/env python3
"""For every bounded driver: run it (quick, seed 0) on /repo and report which 'known' entries of
known_findings.json still match a failing key, which match nothing any more (candidates for
status=fixed), and which failing keys are unlisted.  Hand-run after applying repairs."""
import json, os, re, subprocess, sys, glob
here = os.path.dirname(os.path.dirname(os.path.abspath(__file__)))
known = json.load(open(os.path.join(here, "known_findings.json")))["findings"]
pids = sys.argv[1:] or sorted({os.path.basename(f)[1:3] for f in glob.glob(os.path.join(here, "bounded", "c[0-9][0-9].py"))})
for nn in pids:
    pid = "C" + nn
    drv = os.path.join(here, "bounded", "c%s.py" % nn)
    if not os.path.exists(drv):
        continue
    env = dict(os.environ, PYTHONPATH="/repo", UNYT_VERIF_REPO="/repo")
    p = subprocess.run(["/venv/bin/python", drv, "--tier", "quick", "--seed", "0"], capture_output=True, text=True, env=env, cwd="/")
    line = [l for l in p.stdout.splitlines() if l.startswith("BOUNDED-JSON ")]
    if not line:
        print(pid, "driver produced no result", p.stderr[-300:]); continue
    res = json.loads(line[-1][13:])
    keys = sorted({f["key"] for f in res["failures"]})
    ents = [k for k in known if k["property"] == pid and k["match"]["kind"] == "bounded" and k["status"] == "known"]
    used, unlisted = set(), []
    for key in keys:
        ms = [k["id"] for k in ents if ("key" in k["match"] and k["match"]["key"] == key) or
              ("key_re" in k["match"] and re.fullmatch(k["match"]["key_re"], key))]
        if not ms:
            unlisted.append(key)
        used.update(ms)
    print("%s: %d failing keys, %d/%d known entries still match, unlisted=%d" % (pid, len(keys), len(used), len(ents), len(unlisted)))
    for k in ents:
        if k["id"] not in used:
            print("   NO-LONGER-FAILS", k["id"])
    for u in unlisted:
        print("   UNLISTED", u)
