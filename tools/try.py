#!/usr/bin/env python3-vt
"""tools/try.py <module> <Class> [--repo R]: verify one contract, print a short report"""
import sys, json, os
sys.path.insert(0, os.path.dirname(os.path.dirname(os.path.abspath(__file__))))
from pyvc import run as R
repo = "/repo"
args = sys.argv[1:]
if "--repo" in args:
    i = args.index("--repo"); repo = args[i + 1]; del args[i:i + 2]
rep = R.run_proof_job((repo, (args[0], args[1])))
print("paths", rep["paths"], "obligations", rep["obligations"], "discharged", rep["discharged"],
      "canary", rep["canary_refuted"], "time", rep["time_s"])
if rep.get("error"):
    print("ERROR", rep["error"])
from collections import Counter
for u, n in Counter(rep["undecided_paths"]).most_common(12):
    print("UNDECIDED x%d: %s" % (n, u))
for u in rep["unknown"][:10]:
    print("UNKNOWN", u)
seen = Counter()
for f in rep["failed"]:
    seen[f["label"]] += 1
    if seen[f["label"]] <= (3 if "-v" in args else 1):
        print("FAILED", f["label"], "| exact" if f.get("exact", True) else "| abstract", "| where", f.get("where"))
        print("   model", json.dumps(f["model"], default=str)[:900])
        print("   formula", (f.get("formula") or "")[:300].replace("\n", " "))
for l, n in seen.items():
    print("FAILED x%d: %s" % (n, l))
print("callees", rep["callees_by_contract"])
