#!/usr/bin/env python3-vt
"""tools/tryall.py <module> [name-filter] : verify every contract class listed in module.ALL (or
all Contract subclasses) in the pool and print one line each"""
import sys, os, time, importlib
sys.path.insert(0, os.path.dirname(os.path.dirname(os.path.abspath(__file__))))
from pyvc import run as R
mod = sys.argv[1]
flt = sys.argv[2] if len(sys.argv) > 2 else ""
m = importlib.import_module(mod)
names = getattr(m, "ALL", None)
if names is None:
    from pyvc.contracts import Contract
    names = [k for k, v in vars(m).items() if isinstance(v, type) and issubclass(v, Contract)
             and v.__module__ == mod and v.name and not getattr(v, "trusted", False)]
names = [n for n in names if flt in n]
t0 = time.time()
reps = R.run_pool(R.run_proof_job, [("/repo", (mod, n)) for n in names])
tot = dis = 0
for n, r in zip(names, reps):
    tot += r["obligations"]; dis += r["discharged"]
    flag = "ok " if (r["obligations"] == r["discharged"] and r["obligations"] and not r["undecided_paths"]
                     and not r.get("error") and r.get("canary_refuted") is not False) else "!! "
    print("%s%-34s paths %4d obl %5d/%5d  %6.1fs %s %s %s" % (
        flag, n, r["paths"], r["discharged"], r["obligations"], r["time_s"],
        ("UNDEC:" + r["undecided_paths"][0][:70]) if r["undecided_paths"] else "",
        ("FAIL:" + r["failed"][0]["label"][:80]) if r["failed"] else "",
        ("ERR:" + r["error"][-120:]) if r.get("error") else ""))
print("total", dis, "/", tot, "wall %.1fs" % (time.time() - t0))
