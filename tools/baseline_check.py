#!/usr/bin/env python3
"""Run the repository's pinned test command (guard OFF) and compare with BASELINE.json:
every test in stable_pass must still pass.  usage: baseline_check.py [repo]"""
import json, os, subprocess, sys, tempfile, xml.etree.ElementTree as ET
repo = sys.argv[1] if len(sys.argv) > 1 else "/repo"
base = json.load(open("/root/.vp/BASELINE.json"))
want = set(base["stable_pass"])
with tempfile.TemporaryDirectory() as d:
    x = os.path.join(d, "j.xml")
    env = dict(os.environ); env.pop("UNYT_VERIF", None)
    p = subprocess.run(["/venv/bin/python", "-m", "pytest", "-ra", "-q", "-p", "no:cacheprovider",
                        "--timeout=900", "--continue-on-collection-errors", "--junitxml=" + x],
                       cwd=repo, capture_output=True, text=True, env=env)
    t = ET.parse(x)
    passed = set()
    for tc in t.iter("testcase"):
        ok = not any(c.tag in ("failure", "error", "skipped") for c in tc)
        name = "%s::%s" % (tc.get("classname"), tc.get("name"))
        if ok:
            passed.add(name)
missing = sorted(want - passed)
print("baseline stable_pass=%d passed_now=%d missing=%d" % (len(want), len(passed), len(missing)))
for m in missing[:20]:
    print("  MISSING", m)
sys.exit(1 if missing else 0)
