#!/usr/bin/env python3
"""print a python file with docstrings and blank lines removed, keeping line numbers"""
import ast, sys
path=sys.argv[1]; lo=int(sys.argv[2]) if len(sys.argv)>2 else 1; hi=int(sys.argv[3]) if len(sys.argv)>3 else 10**9
src=open(path).read(); tree=ast.parse(src); skip=set()
for n in ast.walk(tree):
    if isinstance(n,(ast.FunctionDef,ast.ClassDef,ast.Module,ast.AsyncFunctionDef)):
        b=n.body
        if b and isinstance(b[0],ast.Expr) and isinstance(b[0].value,ast.Constant) and isinstance(b[0].value.value,str):
            for i in range(b[0].lineno,b[0].end_lineno+1): skip.add(i)
for i,l in enumerate(src.splitlines(),1):
    if lo<=i<=hi and i not in skip and l.strip():
        print(f"{i}\t{l}")
