#!/bin/bash
# usage: mutry.sh '<sed expr>' <file-under-unyt> <module> <Class>   -- sed edit on a scratch copy, verify one contract
sedexpr="$1"; file="$2"; mod="$3"; cls="$4"
d=$(mktemp -d /tmp/mutXXXX)
mkdir -p $d/repo && cp -r /repo/unyt $d/repo/ && rm -rf $d/repo/unyt/__pycache__
sed -i "$sedexpr" $d/repo/unyt/$file
diff -u /repo/unyt/$file $d/repo/unyt/$file | grep '^[-+]' | grep -v '^+++\|^---' | head -6
cd /verif && python3-vt tools/try.py $mod $cls --repo $d/repo 2>&1 | grep -v "^   formula\|^callees" | cut -c1-300 | head -12
rm -rf $d
