#!/usr/bin/env python3
"""Merge /verif/bounded/cNN_known.json (written during triage, one entry per defect site) into
/verif/known_findings.json.  Hand-run; known_findings.json is never written by a check."""
import glob, json, os, re, sys
here = os.path.dirname(os.path.dirname(os.path.abspath(__file__)))
p = os.path.join(here, "known_findings.json")
d = json.load(open(p))
ids = {f["id"]: i for i, f in enumerate(d["findings"])}
n = 0
for fn in sorted(glob.glob(os.path.join(here, "bounded", "c*_known.json"))):
    for e in json.load(open(fn)):
        assert e["match"]["kind"] in ("bounded", "obligation", "ground") and ("key_re" in e["match"] or "key" in e["match"]), e
        if "key_re" in e["match"]:
            re.compile(e["match"]["key_re"])
        if e["id"] in ids:
            d["findings"][ids[e["id"]]] = e
        else:
            ids[e["id"]] = len(d["findings"])
            d["findings"].append(e)
        n += 1
json.dump(d, open(p, "w"), indent=1, ensure_ascii=False)
print("merged", n, "entries; total", len(d["findings"]))
