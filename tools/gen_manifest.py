#!/usr/bin/env python3
"""Regenerates MANIFEST.json from plans.py + manifest_meta.py (kept in sync by hand-run)."""
import json, sys, os
sys.path.insert(0, os.path.dirname(os.path.dirname(os.path.abspath(__file__))))
import manifest_meta as M
props = [json.loads(l) for l in open(os.path.join(os.path.dirname(__file__), "..", "properties.jsonl"))]
checks = []
na = []
for p in props:
    pid = p["id"]
    if pid in M.CHECKS:
        c = M.CHECKS[pid]
        checks.append({
            "property_id": pid,
            "quick_cmd": "./check %s --tier quick" % pid,
            "thorough_cmd": "./check %s --tier thorough" % pid,
            "evidence_file": "/verif/evidence/%s.json" % pid,
            "replay_cmd_template": "./check %s --replay {path}" % pid,
            "engine": "pyvc",
            "level_claimed": {"category": c["category"], "text": c["text"], "design_ref": c.get("design_ref", "DESIGN.md section 5 (%s)" % pid)},
            "level_note": c["note"],
            "technique": c["technique"],
        })
    else:
        na.append({"property_id": pid, "reason": M.NOT_APPLICABLE.get(pid, "check not built yet in this round; not claimed")})
man = {
    "version": 1,
    "setup_cmd": "./setup.sh",
    "hooks": {"guard": "UNYT_VERIF", "enable": "no source hooks: contracts are sidecar files under /verif/contracts, monitors attach from outside; UNYT_VERIF is reserved and unused",
              "baseline_off_cmd": "cd /repo && /venv/bin/python -m pytest -ra -q -p no:cacheprovider --timeout=900 --continue-on-collection-errors",
              "source_commits": [], "add_only": True},
    "engines": [{"name": "pyvc", "path": "/verif/pyvc", "serves_properties": sorted(M.CHECKS),
                 "kind_free_text": "contract-based deductive verifier written for this task: re-reads /repo/unyt/*.py with ast on every run, symbolically executes the real function bodies path by path against sidecar contracts (pre/post/raises/frame), discharges each (path, obligation) with z3 (cvc5 on unknown); ground obligations over tables extracted from the AST; bounded run-time stand-ins on the real code under /venv/bin/python, never counted as proved"}],
    "checks": checks,
    "notes": M.NOTES,
    "not_applicable": na,
}
json.dump(man, open(os.path.join(os.path.dirname(__file__), "..", "MANIFEST.json"), "w"), indent=1)
print("checks:", [c["property_id"] for c in checks], "not_applicable:", len(na))
