#!/bin/bash
# usage: seedtest.sh <seed-dir> <PROP> [more props...]
# confirms a seeded change (patch.diff + demo.py) in a scratch worktree and runs the checks against it
sd="$1"; shift
id=$(basename "$sd")
wt=/tmp/sr_$id
git -C /repo worktree remove --force $wt 2>/dev/null
git -C /repo worktree add -q $wt HEAD || exit 9
( cd $wt && git apply "$sd/patch.diff" ) || { echo "PATCH DOES NOT APPLY"; git -C /repo worktree remove --force $wt; exit 8; }
echo "== baseline: $(python3 /verif/tools/baseline_check.py $wt | head -1)"
( cd /tmp && PYTHONPATH=/repo /venv/bin/python "$sd/demo.py" >/dev/null 2>&1 ); echo "== demo on /repo: exit $?"
( cd /tmp && PYTHONPATH=$wt /venv/bin/python "$sd/demo.py" >/dev/null 2>&1 ); echo "== demo on seeded tree: exit $?"
for p in "$@"; do
  out=$(cd /verif && python3-vt vcheck.py $p --repo $wt --evidence-dir /tmp/sr_ev_$id 2>&1); rc=$?
  echo "== check $p: exit $rc"; echo "$out" | grep -E "^(violated|VIOLATION|CHECKER|UNDECIDED)" | cut -c1-260 | head -8
done
rm -rf /tmp/sr_ev_$id
git -C /repo worktree remove --force $wt
