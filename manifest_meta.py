"""Human-written per-check metadata for MANIFEST.json (see tools/gen_manifest.py)."""
NOTES = ("Contract-based deductive verification of the real unyt source. See DESIGN.md. "
         "Exit codes of ./check: 0 held, 1 violation (VIOLATION line), 2 undecided, 3 checker failure.")
TRUST = ("trusted: the pyvc executor's encoding of the Python subset (cross-checked against CPython by "
         "replays and the mutation self-test), z3/cvc5, floats modelled as reals, the assumed contracts "
         "of sympy/numpy/builtins listed in the evidence file")
CHECKS = {
    "C03": {
        "category": "proof",
        "text": "the real body of _get_conversion_factor is proved, for all real scales/offsets, all "
                "dimension vectors and all prefix splits, to satisfy SI(x*f-o,new)==SI(x,old) (the "
                "property's affine semantics); identity/inverse/composition and route equality are "
                "lemmas over that contract; float residuals are measured by a bounded driver",
        "note": TRUST,
        "technique": "contract-based deductive verification (ast->VC->z3/cvc5) + bounded stand-in",
    },
}
NOT_APPLICABLE = {}
