"""Human-written per-check metadata for MANIFEST.json (see tools/gen_manifest.py)."""
NOTES = ("Contract-based deductive verification of the real unyt source. See DESIGN.md. "
         "Exit codes of ./check: 0 held, 1 violation (VIOLATION line), 2 undecided, 3 checker failure.")
TRUST = ("trusted: the pyvc executor's encoding of the Python subset (cross-checked against CPython by "
         "replays and the mutation self-test), z3/cvc5, floats modelled as reals, the assumed contracts "
         "of sympy/numpy/builtins listed in the evidence file")
CHECKS = {
    "C03": {
        "category": "proof",
        "text": "the real body of _get_conversion_factor is proved, for all real scales/offsets, all "
                "dimension vectors and all prefix splits, to satisfy SI(x*f-o,new)==SI(x,old) (the "
                "property's affine semantics); identity/inverse/composition and route equality are "
                "lemmas over that contract; float residuals are measured by a bounded driver",
        "note": TRUST,
        "technique": "contract-based deductive verification (ast->VC->z3/cvc5) + bounded stand-in",
    },
}
TECH = "contract-based deductive verification (ast->VC->z3/cvc5) + bounded stand-in"
CHECKS.update({
    "C02": {"category": "proof",
            "text": "every row of the unit table and prefix table is re-extracted from the source and compared "
                    "exactly with independently written definitions (ground, exhaustive); the prefix lookup "
                    "_lookup_unit_symbol/_split_prefix and the conversion factor are proved for all strings, all "
                    "tables and all real scales; x.to(u2) = x*scale(u1)/scale(u2) is a lemma over that contract",
            "note": TRUST + "; the spec table /verif/spec/unit_definitions.py", "technique": TECH},
    "C05": {"category": "proof",
            "text": "Unit.__mul__, __truediv__, __pow__, __eq__, same_dimensions_as, as_coeff_unit are proved "
                    "from their real bodies against postconditions on scale, dimension vector, offset, registry "
                    "and expression for all units; commutativity, associativity, identity, inverse, power laws "
                    "and the (scale, dimension) homomorphism are lemmas over those contracts",
            "note": TRUST + "; sympy expression algebra is uninterpreted (assumed canonicalisation)", "technique": TECH},
    "C14": {"category": "proof",
            "text": "_split_prefix and _lookup_unit_symbol are proved for all strings and all tables (z3 strings): "
                    "prefix+remainder reassemble the string, only prefixable table symbols take a prefix, a table "
                    "symbol always wins over a split; the finite documented name space (~17k name/attribute cases) "
                    "is enumerated completely on the real package (bounded, exhaustive)",
            "note": TRUST, "technique": TECH},
    "C17": {"category": "proof",
            "text": "dtype obligations of in_units/to/convert_to_units are decided for the whole dtype lattice "
                    "(symbolic kind and itemsize): integers go to the float of the same item size (>=16 bit) or the "
                    "call raises, floats keep their width, complex stays complex, copy and in-place routes agree; an integer element "
            "beyond the exact range of the float of its width (2^11, 2^24, 2^53: IEEE 754) is announced by a RuntimeWarning "
            "(ghost event); to_value returns the reading in the requested unit (ndarray / Python float)",
            "note": TRUST + "; NumPy dtype/promotion rules are assumed contracts (numpy-dtype)", "technique": TECH},
    "C18": {"category": "proof",
            "text": "normal and exceptional frame conditions proved from the real bodies: conversion routes (in_units/to copy, "
                    "convert_to_units in place: a refused conversion leaves numbers, dtype and unit untouched), "
                    "as_coeff_unit/simplify, and __array_ufunc__ with out=: for add, subtract, multiply, divide, maximum and "
                    "the unary family, with a separate target and with a target aliasing an operand (integer targets "
                    "re-typed in place, per-view dtypes), a successful call changes only its target, which then holds "
                    "exactly the value law of the copying call over the entry values, and a refused call leaves numbers "
                    "and unit of the target unchanged; every ufunc and handler contract carries the frame of its inputs",
            "note": TRUST + "; NumPy's out= casting rule (same_kind) and buffer/view semantics are assumed contracts; "
                    "augmented assignment reaches out= through NumPy's operator dispatch (not modelled): bounded driver c18 (in-place catalogue over views of larger buffers, 6-14 dtypes, every in-place handler) stands in for it and for machine-arithmetic effects",
            "technique": TECH},
})
CHECKS["C15"] = {
    "category": "proof",
    "text": "the tables _physical_ratios.py / physical_constants are re-executed from the current source with "
            "exact rationals and, in a second pass, with every primitive measured number replaced by a free "
            "positive symbol: the defining relations (hbar, eps_0*mu_0*c^2, Stefan-Boltzmann, radiation constant, "
            "Rydberg, the six Planck units, qe=-qp) are proved as symbolic identities, i.e. for all values of the "
            "primitives; every constant's SI value and dimension is compared with an independent table "
            "(exhaustive), names that are both unit and constant are shown to be the same expression, names are "
            "single-valued",
    "note": TRUST + "; sympy simplification as the ground/symbolic evaluator; spec/constants.py; add_constants "
            "(materialisation per registry / unit system, histories of registries) is bounded only: driver c15",
    "technique": "ground + symbolic-identity obligations over tables extracted from the AST (sympy exact), part of the contract-based framework",
}
UFUNC_NOTE = ("; NumPy ufuncs are assumed element-wise scalar functions over reals (closed forms for "
              "add/subtract/multiply/divide/max/min/comparisons, uninterpreted + degree-1 homogeneity for "
              "hypot/remainder/fmod); arrays abstracted to one arbitrary element, dtype, shape class and buffer "
              "identity; units that compare equal under Unit.__eq__ (isclose 1e-9) are identified; operator->ufunc "
              "dispatch is NumPy's; unary pass-through / power ufuncs and out= forms (separate target, target aliasing an "
              "operand; NumPy's same_kind casting and per-view dtypes modelled) are under contract for add, subtract, "
              "multiply, divide, maximum and the unary family; reduce/accumulate/outer forms, trigonometric ufuncs and "
              "list operands are not yet under contract")
CHECKS["C01"] = {
    "category": "proof",
    "text": "the real body of unyt_array.__array_ufunc__ is proved, per commensurability-requiring ufunc (add, "
            "subtract, maximum/minimum/fmax/fmin, hypot, remainder/mod/fmod, the six comparisons) and per operand "
            "configuration (quantity, bare scalar, 0, bare array on either side), for all units, readings, dtypes and "
            "shapes: a value is returned only for operands of one dimension or under a documented exception, == / != "
            "answer all-False/all-True, and on every raising path numbers, dtype and unit of every operand are "
            "unchanged; the ufunc -> unit-rule table is re-extracted from the AST and checked against the "
            "classification the statement implies; _get_conversion_factor raises exactly on dimension mismatch",
    "note": TRUST + UFUNC_NOTE + "; the merge guards of the array-function handlers are under contract (C06/C07 handler contracts carry the C01 clauses); __setitem__ and functions without a handler: bounded driver c01",
    "technique": TECH,
}
CHECKS["C04"] = {
    "category": "proof",
    "text": "SI-homomorphism of __array_ufunc__ proved from its real body for the additive, positively homogeneous, "
            "comparison and multiplicative ufunc classes and seven operand configurations: SI(result) = op(SI(a), SI(b)) "
            "for all real scales and readings, dimension of products/quotients by dimensional analysis, sums labelled "
            "with the left-most operand's unit; the unit rules (_multiply_units, _divide_units, simplify, "
            "as_coeff_unit, Unit.__mul__/__truediv__/__pow__) are proved against contracts that carry coefficient x "
            "scale, so the law does not depend on what sympy cancels; re-expression invariance of whole expressions "
            "follows by induction over these per-call contracts",
    "note": TRUST + UFUNC_NOTE + "; real powers: rpow(s,1/2)**2 == s etc. and np.sqrt/np.cbrt facts are assumed; "
            "binary power and reduce/accumulate forms are not under contract (bounded driver c04); quantity-class operands, one object passed twice and out= forms (separate target, operand, view of an operand's memory) are",
    "technique": TECH,
}
CHECKS["C08"] = {
    "category": "proof",
    "text": "for every ordered pair of the library's temperature unit names (K, R, degC, degF, delta_degC, "
            "delta_degF, a prefixed difference mK and a prefixed point mdegC) the real __array_ufunc__ is proved for add "
            "and subtract with symbolic readings, degree sizes and zero points: whenever a value is returned it is the "
            "affine point/difference value in the degree size of the label and the label is a point or difference "
            "scale as required; two different offset scales are never combined; Unit.__mul__/__truediv__/__pow__ refuse "
            "offset units, and so do the unary power ufuncs and hypot / remainder / fmod / multiply / divide with an operand "
            "on an offset scale, before anything is written; conversions are the exact affine maps (C03 contract)",
    "note": TRUST + UFUNC_NOTE + "; table facts (which names carry a zero point, degree sizes of degC/degF) enter as "
            "preconditions checked by C02's ground obligations; diff/ptp/ediff1d go through diff_helper, executed inline in their handler contracts (C07); unary powers of offset scales are refused (unary contracts)",
    "technique": TECH,
}
HANDLER_NOTE = ("; numpy's private implementations are uninterpreted functions (congruence only), their "
                "signatures are read with inspect from the verifier interpreter's NumPy; a converted copy made by "
                "in_units counts as the same argument; handlers whose result depends on flags or shapes beyond the "
                "degree table (histogram*, prod, logspace, apply_over_axes, cumprod) and the ~240 functions without a "
                "handler (NumPy's own code runs) are covered by the bounded driver only")
CHECKS["C06"] = {
    "category": "proof",
    "text": "forwarding by congruence for the @implements handlers (about 90 of the 98, every flag value and out= "
            "variant): with numpy's implementations uninterpreted, every value a handler returns and every out= target "
            "is proved to originate from the implementation of exactly the function named in the handler's decorator "
            "(read from the source), applied to the caller's arguments stripped of units, argument by argument through "
            "NumPy's signature; attaching units (Unit.__mul__ data path, bypass constructor) is proved not to touch "
            "values; the bounded driver differential-tests the whole numpy / linalg / fft catalogue (311 entries) on the "
            "real package",
    "note": TRUST + HANDLER_NOTE,
    "technique": TECH,
}
CHECKS["C07"] = {
    "category": "proof",
    "text": "unit bookkeeping of every handler proved against independent homogeneity degrees (spec/numpy_algebra.py): "
            "units(result) = prod(units(arg)**degree) in scale and dimension for all units (det with the symbolic matrix "
            "order, einsum multilinear, lstsq/eig/svd component-wise), index/boolean results carry no units, merged "
            "arguments are reached only with equal units; covariance under re-expression then follows from NumPy's "
            "homogeneity (assumed, conformance-tested bit-exactly by the bounded driver with dyadic unit systems)",
    "note": TRUST + HANDLER_NOTE,
    "technique": TECH,
}
CHECKS["C16"] = {
    "category": "proof",
    "text": "the class decision is proved where it is made: the wrap-up of __array_ufunc__ (shape () -> unyt_quantity, "
            "more than one element -> never a quantity) for every verified ufunc class and operand configuration, "
            "__getitem__ (0-d results become quantities with the parent's unit and name), Unit.__mul__ on data "
            "(quantity iff shape (), always a copy), unyt_quantity.__new__ (refuses more than one element); the "
            "accessors are proved to be views (.d, .ndview, ndarray_view()) or copies (.v, .value, to_ndarray()) and "
            "the converting routes to return fresh memory and leave their input untouched",
    "note": TRUST + UFUNC_NOTE + "; NumPy's indexing / view / copy semantics are assumed contracts (numpy-indexing, "
            "numpy-elementwise); list coercion and reshape/transposes are covered by the bounded driver only",
    "technique": TECH,
}
BTECH = ("bounded stand-in on the real package (enumeration + seeded generation against an oracle written from the "
         "statement) + the contract-based proof obligations (ast->VC->z3) available for the functions it depends on")
BNOTE = ("; the bounded driver is a stand-in, labelled bounded and never counted as proved: it covers the stated "
         "enumeration only; " + TRUST)


def _b(pid, text):
    CHECKS[pid] = {"category": "other", "text": text, "note": "bound stated in the evidence file" + BNOTE,
                   "technique": BTECH}


CHECKS["C09"] = {
    "category": "proof",
    "text": "Equivalence.convert is proved from its real body together with every _convert branch it dispatches to: for all 9 "
            "equivalences and ARBITRARY input / target dimensions it raises InvalidUnitEquivalence exactly when the pair is not "
            "covered and leaves the input untouched; for thermal, mass_energy, spectral (12 directions), number_density, "
            "schwarzschild, compton and sound_speed (6 directions), for an input in ANY unit of the source dimension, any value, "
            "any mu / gamma, the SI magnitude of the result equals the defining formula (spec/equivalence_formulas.py, written "
            "from the statement) evaluated with the library's own constants, the result has the target dimension, the copying "
            "form leaves its input untouched and the in-place form converts its input to the same quantity (array and quantity "
            "inputs, integer input of the copying form). Every NumPy call inside a formula goes through "
            "unyt_array.__array_ufunc__ by contract (the proved configuration of that call: quantity / scalar operands, one "
            "object passed twice, out= naming an operand or a view of its memory); there-and-back and via-intermediate are 58 "
            "lemmas over the proved postconditions. The entry points to_equivalent (copy) and convert_to_equivalent (in place) "
            "are proved for an ARBITRARY target unit string (memoised or parsed; any dimension, scale and zero point): the value "
            "returned is the formula's value expressed in the requested unit, zero point included, or a plain conversion when "
            "the dimensions agree; nothing else returns; the copying form leaves its input untouched, a refused in-place request "
            "leaves it as it was. Bounded only: the value law of lorentz (the subtraction contract gives no exact law when the "
            "pure-number unit of an intermediate result is within 1e-9 of 1), effective_temperature (np.power has no contract), "
            "to_value(.., equivalence=) and floating-point residuals (the spellings to(.., equivalence=), in_units(.., equivalence=) "
            "and convert_to_units(.., equivalence=) are proved like the entry points they forward to): driver over all 9 equivalences x 32 directions x units x parameters "
            "x 9 call forms",
    "note": TRUST + "; unyt.physical_constants.<X> are symbolic positive quantities of the right dimension (their values are "
            "C15's business); machine integers are mathematical (unsigned wrap-around in a formula is invisible to the "
            "proof: bounded driver c17/c09)" + UFUNC_NOTE,
    "technique": TECH,
}
_b("C10", "bounded: 7 built-in + pinned + generated user unit systems and code-unit registries x all 145 table atoms x "
          "compounds: same quantity, atoms inside the system, back conversion, agreement with get_base_equivalent and the "
          "in-place twins, idempotence, immediate usability, rejection of inconsistent bases, histories of re-defined systems; "
          "proved (unbounded): the numeric conversion step preserves the SI magnitude for all scales; "
          "Unit.get_base_equivalent, for an ARBITRARY unit system, returns a Unit bound to the registry of the unit being "
          "converted. The synthesis of the target unit is sympy factorisation: "
          "out of the verifier's reach")
_b("C11", "bounded: 21 restoration routes (pickle protocols, copies, savetxt/loadtxt, str/repr re-parse, JSON) x registries x "
          "about 185 follow-up operations on original and restored objects in both orders, including the registry every result "
          "is bound to; proved (unbounded): the special cases of Unit.__str__/__repr__ that persistence stores, and that the "
          "difference unit of two temperature points is bound to the operands' registry (found by the driver, repaired, now a "
          "postcondition of _difference_units). Pickle / deepcopy / sympy identity are outside the verifier's Python subset")
_b("C12", "proved (unbounded, per edit): UnitRegistry.add / modify / remove / _invalidate_caches against full-view postconditions "
          "stated for an ARBITRARY key of the symbol table: the edited row holds exactly the data given, generated SI-prefixed "
          "rows of the edited symbol are dropped, every other row is untouched, the string->Unit memo is emptied and the table "
          "digest reset, refused edits add / change / remove no symbol; _lookup_unit_symbol writes exactly the row of the "
          "requested prefixed symbol with scale = prefix x base; Unit.__new__ on a string returns a Unit bound to the registry it "
          "was given. Bounded (histories are not a per-call property): ALL histories of registry edits and observations up to "
          "length 3-4 (thorough 5-6) over a 3-symbol alphabet, compared after every step with a fresh registry holding the net "
          "table, plus random histories of length 40 and twin-registry memo checks")
_b("C13", "proved (unbounded, per call): the registry edits keep their own table and memo objects and write only into them; "
          "_lookup_unit_symbol and `in` write only the table passed in, at most the generated row of the looked-up name; the "
          "temperature difference unit is bound to the operands' registry. Bounded: operations on 2-3 registries created by ten "
          "routes (aliasing lut=, JSON, pickle, deepcopy, Unit.copy, ...) with digests of every other registry, the default "
          "table, namespace exports and built-in conversions after each step, each scenario in its own process")
_b("C19", "proved (unbounded): allclose_units for one-element quantities in arbitrary units, a bare or unit-carrying atol and a "
          "bare rtol decides |A - D| <= atol + rtol |D| on SI magnitudes (a bare atol read in the desired value's unit), is False "
          "for different dimensions, and leaves its arguments untouched; assert_allclose_units raises exactly when it is False; "
          "_has_dimensions decides by the dimension vector; Unit.__eq__ and same_dimensions_as decide by scale, offset and "
          "dimension vector only. Bounded: np.isclose / np.allclose / array_equal / accepts / returns and multi-element shapes "
          "over tolerance scenarios fixed in SI magnitudes and written in every unit pair of 7 dimension groups, decorators over "
          "all 62 exported dimensions")
_b("C20", "proved (unbounded): for EVERY string, parse_unyt_expr lets only UnitParseError escape (sympy's parser abstract: it may "
          "raise anything or return anything); the structural walk _get_unit_data_from_expr over an arbitrary sympy expression "
          "(Number, Symbol, Pow, Mul, other) and the string path of Unit.__new__ raise only UnitParseError and return a Unit "
          "bound to the given registry; _split_prefix / _lookup_unit_symbol are total (empty name included) and raise only "
          "UnitParseError for every string and every table; Unit.__str__/__repr__ special cases. Bounded: 28k (thorough 345k) "
          "strings from a grammar generator, token mutations and byte fuzz in four registries with an independent tokenizer as "
          "vocabulary oracle and canaries against code execution; print/parse round trip over all 4191 names and random unit "
          "arithmetic (sympy's parser and printer are outside the verifier's reach)")
NOT_APPLICABLE = {}

# ---- additions of the last round (appended to the texts above) -------------------------------------------
def _add(pid, text):
    CHECKS[pid]["text"] = CHECKS[pid]["text"].rstrip() + " " + text


_add("C03", "Also proved from their real bodies: in_base / in_cgs / in_mks (copying) and convert_to_base (in place) for an "
            "arbitrary unit system: whatever unit get_base_equivalent names for the caller's unit system, the result is the same "
            "physical quantity in it, zero point included (non-electromagnetic units; the CGS<->SI pairs are bounded).")
_add("C10", "Proved (unbounded) in addition: in_base (array and quantity) and convert_to_base preserve the SI magnitude, zero "
            "points included, label the result with get_base_equivalent(<the caller's unit system>) of the input's unit, bound "
            "to the input's registry, and leave the input untouched / convert in the caller's memory.")
_add("C17", "in_base / convert_to_base obey the same dtype rule (proved).")
_add("C18", "Also proved: in_base leaves its input untouched and returns fresh memory; a refused convert_to_base leaves "
            "numbers and unit as they were; the reductions add/maximum/minimum/multiply.reduce and power leave their operand "
            "untouched.")
_add("C04", "Also proved: the reductions add.reduce / maximum.reduce / minimum.reduce / multiply.reduce of a quantity (default "
            "axis, axis=None, axis=1, axis=-1; the number of elements combined is symbolic): SI(result) is the reduction of "
            "the SI magnitudes, the product of n elements has n times the dimension; np.power / ** with a bare real "
            "exponent: SI(result) == SI(x)**p, dimension p times the operand's.")
_add("C06", "Also proved: <ufunc>.reduce on a quantity runs NumPy's reduction of that ufunc on the bare data over the axis the "
            "caller asked for; the handlers with two array parameters are additionally proved with the SAME object passed for "
            "both (an identity shortcut is only visible there).")
_add("C16", "Also proved: a python list of quantities ([Q,Q], [Q,Q,Q]; constructor / binary-ufunc operand route "
            "_coerce_iterable_units) is coerced to the first member's unit with every member's value converted, zero point "
            "included, into fresh memory; result class of reductions and powers.")
_add("C01", "Also proved: a python list of quantities of different dimensions is refused (IterableUnitCoercionError) with its "
            "members untouched, and a list holding a quantity is never coerced to a bare array.")
_add("C08", "Also proved: np.power / ** of an offset-scale quantity refuses for every exponent but 1; a list mixing two offset "
            "scales is converted member by member, zero points included.")
_add("C07", "Module-level memo dicts are modelled (a hit returns what an earlier call stored for an equal key), so a unit memo "
            "keyed without the registry fails the handler's unit postcondition.")
_add("C11", "Proved (unbounded) in addition: unyt_array.__setstate__ binds the restored unit to a registry that owns its table "
            "and holds exactly the pickled rows (nothing overwritten by defaults, nothing added but generated prefixed rows); "
            "UnitRegistry.__deepcopy__: own table, same rows, empty memo.")
_add("C12", "Proved in addition: modify(symbol, <quantity of the same registry>) -- in_base replaced by its (trusted) effect on "
            "the registry: arbitrary strings memoised, generated rows added -- still ends with an empty memo and no generated "
            "row of the edited family (found and repaired a stale-memo defect); _invalidate_caches is proved for an arbitrary "
            "memo state (empty or not).")
_add("C19", "Proved in addition: the numpy.isclose / numpy.allclose handlers reach NumPy only with operands in equal units or "
            "after converting the second operand (merge guard), array_equal / array_equiv answer without NumPy only for "
            "operands whose units differ, also when the same object is passed twice.")
_add("C01", "arctan2 is under contract like the other commensurability-requiring ufuncs (quantity / bare scalar operands).")
_add("C04", "arctan2: the angle of the SI magnitudes as a pure number (invariance under a common positive rescaling assumed).")
_add("C01", "Item assignment a[i] = q is under contract: refused for a value of another dimension, target and value untouched.")
_add("C18", "Item assignment: a refused assignment leaves the target as it was; a successful one writes the value's physical "
            "quantity in the target's unit into the selected elements only, keeps the target's unit and the value.")
_add("C16", "x.copy() is proved to return independent data with the same numbers, dtype, unit, class and name.")
_add("C13", "Proved in addition: UnitRegistry(lut=...) copies the caller's table (never aliases it); UnitRegistry.from_json "
            "returns a registry that owns a freshly made table holding exactly the decoded rows (results of memoised "
            "helpers carry a ghost mark: they may be shared with other callers); unyt_array.__setstate__ likewise.")
_add("C17", "Mixed-unit arithmetic: the commensurable ufunc contracts (add, subtract, maximum ..., comparisons) carry C17's "
            "dtype clauses: the result of a rescaling operation is floating point or complex, and no operand is cast from a "
            "complex to a real dtype on the way (ghost event of the cast model).")
_add("C11", "Unit.copy() is proved to return another Unit with the same expression, scale, zero point and dimension bound "
            "to the same registry object, whatever the registry's memo holds (found and repaired: the copy of a unit created "
            "before a registry edit came back as the memoised unit of the current table).")
