"""The defining physical formulas of unyt's built-in equivalences (C09), written from the
textbook relations named in the property statement -- NOT from /repo.

DIMS: dimension name -> exponent dict over the base dimensions.
CONSTANTS: the library constants a formula may use: name used here -> (canonical name in
    spec/constants.py, i.e. which physical constant it is).
EQUIVALENCES: name -> {"class": class name in unyt.equivalencies, "members": [dimension names],
    "params": {keyword: default}, "formulas": {(from, to): f}} where f(x, K, p) maps the SI
    magnitude x of the input to the SI magnitude of the result, K being the SI magnitudes of the
    library's own constants and p the keyword parameters.  A formula returns either a z3 /
    arithmetic expression y_expected, or ("sqrt", arg): the non-negative y with y*y == arg
    (for arg >= 0), or ("undefined-at-zero", expr): expr wherever x != 0.
"""
from fractions import Fraction as Fr

DIMS = {
    "dimensionless": {},
    "mass": {"mass": 1}, "length": {"length": 1}, "temperature": {"temperature": 1},
    "rate": {"time": -1}, "spatial_frequency": {"length": -1},
    "velocity": {"length": 1, "time": -1},
    "energy": {"mass": 1, "length": 2, "time": -2},
    "density": {"mass": 1, "length": -3}, "number_density": {"length": -3},
    "flux": {"mass": 1, "time": -3},
}

# attribute of unyt.physical_constants used by the library -> which constant it must be
CONSTANTS = {"kboltz": "kb", "clight": "c", "mh": "mh", "h_mks": "h", "G": "G",
             "stefan_boltzmann_constant_mks": "σ"}


def sqrt(arg):
    return ("sqrt", arg)


def nz(expr):
    return ("undefined-at-zero", expr)


EQUIVALENCES = {
    "thermal": {"class": "ThermalEquivalence", "members": ["temperature", "energy"], "params": {}, "formulas": {
        ("temperature", "energy"): lambda x, K, p: K["kb"] * x,            # E = k_B T
        ("energy", "temperature"): lambda x, K, p: x / K["kb"]}},
    "mass_energy": {"class": "MassEnergyEquivalence", "members": ["mass", "energy"], "params": {}, "formulas": {
        ("mass", "energy"): lambda x, K, p: x * K["c"] * K["c"],           # E = m c^2
        ("energy", "mass"): lambda x, K, p: x / (K["c"] * K["c"])}},
    "spectral": {"class": "SpectralEquivalence",
                 "members": ["length", "rate", "energy", "spatial_frequency"], "params": {}, "formulas": {
        # E = h nu = h c / lambda = h c nubar
        ("length", "energy"): lambda x, K, p: nz(K["h"] * K["c"] / x),
        ("rate", "energy"): lambda x, K, p: K["h"] * x,
        ("spatial_frequency", "energy"): lambda x, K, p: K["h"] * K["c"] * x,
        ("rate", "length"): lambda x, K, p: nz(K["c"] / x),
        ("energy", "length"): lambda x, K, p: nz(K["h"] * K["c"] / x),
        ("spatial_frequency", "length"): lambda x, K, p: nz(1 / x),
        ("length", "rate"): lambda x, K, p: nz(K["c"] / x),
        ("energy", "rate"): lambda x, K, p: x / K["h"],
        ("spatial_frequency", "rate"): lambda x, K, p: K["c"] * x,
        ("length", "spatial_frequency"): lambda x, K, p: nz(1 / x),
        ("energy", "spatial_frequency"): lambda x, K, p: x / (K["h"] * K["c"]),
        ("rate", "spatial_frequency"): lambda x, K, p: x / K["c"]}},
    "number_density": {"class": "NumberDensityEquivalence", "members": ["density", "number_density"],
                       "params": {"mu": Fr(6, 10)}, "formulas": {
        ("number_density", "density"): lambda x, K, p: p["mu"] * K["mh"] * x,      # rho = mu m_H n
        ("density", "number_density"): lambda x, K, p: x / (p["mu"] * K["mh"])}},
    "schwarzschild": {"class": "SchwarzschildEquivalence", "members": ["mass", "length"], "params": {}, "formulas": {
        ("mass", "length"): lambda x, K, p: 2 * K["G"] * x / (K["c"] * K["c"]),    # R = 2GM/c^2
        ("length", "mass"): lambda x, K, p: x * K["c"] * K["c"] / (2 * K["G"])}},
    "compton": {"class": "ComptonEquivalence", "members": ["mass", "length"], "params": {}, "formulas": {
        ("mass", "length"): lambda x, K, p: nz(K["h"] / (x * K["c"])),            # lambda = h/(m c)
        ("length", "mass"): lambda x, K, p: nz(K["h"] / (x * K["c"]))}},
    "sound_speed": {"class": "SoundSpeedEquivalence", "members": ["velocity", "temperature", "energy"],
                    "params": {"mu": Fr(6, 10), "gamma": Fr(5, 3)}, "formulas": {
        # c_s^2 = gamma k_B T / (mu m_H),  E = k_B T
        ("temperature", "velocity"): lambda x, K, p: sqrt(p["gamma"] * K["kb"] * x / (p["mu"] * K["mh"])),
        ("energy", "velocity"): lambda x, K, p: sqrt(p["gamma"] * x / (p["mu"] * K["mh"])),
        ("velocity", "temperature"): lambda x, K, p: x * x * p["mu"] * K["mh"] / (p["gamma"] * K["kb"]),
        ("energy", "temperature"): lambda x, K, p: x / K["kb"],
        ("velocity", "energy"): lambda x, K, p: x * x * p["mu"] * K["mh"] / p["gamma"],
        ("temperature", "energy"): lambda x, K, p: K["kb"] * x}},
    "lorentz": {"class": "LorentzEquivalence", "members": ["dimensionless", "velocity"], "params": {}, "formulas": {
        # gamma = 1/sqrt(1 - v^2/c^2),  v = c sqrt(1 - 1/gamma^2)
        ("velocity", "dimensionless"): lambda x, K, p: ("inv-sqrt", 1 - x * x / (K["c"] * K["c"])),
        ("dimensionless", "velocity"): lambda x, K, p: ("scaled-sqrt", K["c"], 1 - 1 / (x * x))}},
    "effective_temperature": {"class": "EffectiveTemperatureEquivalence", "members": ["flux", "temperature"],
                              "params": {}, "formulas": {
        # F = sigma T^4
        ("temperature", "flux"): lambda x, K, p: K["σ"] * x * x * x * x,
        ("flux", "temperature"): lambda x, K, p: ("fourth-root", x / K["σ"])}},
}
