"""Classification of NumPy ufuncs by what the property statements (C01, C04) demand of them --
written from the statements, NOT from /repo.

COMMENSURABLE: operations that only make sense for operands of one physical dimension (C01:
"adding, subtracting, ordering, taking min/max, hypot, remainder, arctan2, clipping"); divmod
returns a remainder, nextafter and fmod are remainder-like / ordering-like and are included.
"""
COMMENSURABLE = {
    "add", "subtract", "less", "less_equal", "greater", "greater_equal", "equal", "not_equal",
    "maximum", "minimum", "fmax", "fmin", "hypot", "remainder", "mod", "fmod", "divmod",
    "arctan2", "nextafter",
}
# unit rules that make the dispatcher run its dimension check (C01.P1 proves what the check does)
CHECKED_RULES = {"_preserve_units", "_comparison_unit", "_arctan2_unit", "_difference_units"}

# C04: result unit by dimensional analysis
MULTIPLICATIVE = {"multiply": "_multiply_units", "divide": "_divide_units",
                  "true_divide": "_divide_units", "matmul": "_multiply_units",
                  "vecdot": "_multiply_units"}
POWER_RULES = {"sqrt": "_sqrt_unit", "cbrt": "_cbrt_unit", "square": "_square_unit",
               "reciprocal": "_reciprocal_unit", "power": "_power_unit"}
PASSTHROUGH_1 = {"negative", "absolute", "fabs", "positive", "conj"}   # degree-1, unit kept
# documented to ignore units (outside C04's claim but must not *return* units)
UNIT_IGNORING = {"exp", "exp2", "log", "log2", "log10", "expm1", "log1p", "sinh", "cosh", "tanh",
                 "arcsin", "arccos", "arctan", "arcsinh", "arccosh", "arctanh", "logaddexp",
                 "logaddexp2", "sin", "cos", "tan"}
BITWISE_REFUSED = {"bitwise_and", "bitwise_or", "bitwise_xor", "invert", "left_shift", "right_shift"}
