"""Independent values and defining relations of the physical constants unyt exports,
written from CODATA / IAU publications and the textbook definitions -- NOT derived from
/repo.  Used by the ground obligations of C15.

VALUES: name -> (SI value as a decimal string, dimension dict, class)
  class 'exact'   defined value (pre-2019 SI for mu_0; c; standard gravity): 1 ulp
        'codata'  CODATA recommended value: relative tolerance 2e-6 (covers the spread of the
                  2010 / 2014 / 2018 adjustments for every constant listed except G)
        'G'       Newtonian constant: relative tolerance 2e-4
        'astro'   IAU nominal / astronomical value: relative tolerance 2e-3
        'derived' no independent number: must satisfy its defining relation (RELATIONS)
"""
M, L, T, TH, I = "mass", "length", "time", "temperature", "current_mks"


def d(**kw):
    return {k: str(v) for k, v in kw.items()}


mass = d(mass=1)
energy = d(mass=1, length=2, time=-2)
charge = d(current_mks=1, time=1)

RTOL = {"codata": "2e-6", "G": "2e-4", "astro": "2e-3"}

VALUES = {
    "me": ("9.1093837e-31", mass, "codata"),
    # unyt's `mol` is the pure number N_A (a count), so N_A expressed in mol**-1 is the
    # dimensionless number 1 in SI terms
    "Na": ("1", {}, "codata"),
    "mp": ("1.67262192e-27", mass, "codata"),
    "mh": ("1.6735328e-27", mass, "astro"),          # 1.007947 u (standard atomic weight of H)
    "c": ("299792458", d(length=1, time=-1), "exact"),
    "σ_T": ("6.6524587e-29", d(length=2), "codata"),
    "qp": ("1.602176634e-19", charge, "codata"),
    "qe": ("-1.602176634e-19", charge, "codata"),
    "kb": ("1.380649e-23", d(mass=1, length=2, time=-2, temperature=-1), "codata"),
    "G": ("6.6743e-11", d(length=3, mass=-1, time=-2), "G"),
    "h": ("6.62607015e-34", d(mass=1, length=2, time=-1), "codata"),
    "hbar": ("1.054571817e-34", d(mass=1, length=2, time=-1), "codata"),
    "σ": ("5.670374e-8", d(mass=1, time=-3, temperature=-4), "codata"),
    "a": ("7.565733e-16", d(mass=1, length=-1, time=-2, temperature=-4), "codata"),
    "Tcmb": ("2.7255", d(temperature=1), "astro"),
    "Msun": ("1.98841e30", mass, "astro"),
    "Mjup": ("1.89813e27", mass, "astro"),
    "mercury_mass": ("3.3011e23", mass, "astro"),
    "venus_mass": ("4.8675e24", mass, "astro"),
    "Mearth": ("5.9722e24", mass, "astro"),
    "mars_mass": ("6.4171e23", mass, "astro"),
    "saturn_mass": ("5.6834e26", mass, "astro"),
    "uranus_mass": ("8.6813e25", mass, "astro"),
    "neptune_mass": ("1.02413e26", mass, "astro"),
    "m_pl": ("2.176434e-8", mass, "G"),
    "l_pl": ("1.616255e-35", d(length=1), "G"),
    "t_pl": ("5.391247e-44", d(time=1), "G"),
    "E_pl": ("1.956081e9", energy, "G"),
    "q_pl": ("1.875546e-18", charge, "codata"),
    "T_pl": ("1.416784e32", d(temperature=1), "G"),
    "mu_0": ("4e-7*pi", d(mass=1, length=1, time=-2, current_mks=-2), "exact"),
    "eps_0": ("8.8541878128e-12", d(mass=-1, length=-3, time=4, current_mks=2), "codata"),
    "R_inf": ("10973731.568", d(length=-1), "codata"),
    "standard_gravity": ("9.80665", d(length=1, time=-2), "exact"),
}

# defining relations among the constants (the property statement lists them); each is an
# expression over constant names that must simplify to 0 *symbolically*, i.e. for arbitrary
# positive values of the primitive measured numbers (h, c, G, k_B, e, m_e) -- so a wrong
# formula fails whatever the digits are.
RELATIONS = {
    "hbar = h/(2 pi)": "hbar - h/(2*pi)",
    "eps_0 * mu_0 * c**2 = 1": "eps_0*mu_0*c**2 - 1",
    "Stefan-Boltzmann: sigma = 2 pi^5 k^4 / (15 c^2 h^3)": "σ - 2*pi**5*kb**4/(15*c**2*h**3)",
    "radiation constant: a = 4 sigma / c": "a - 4*σ/c",
    "Rydberg: R_inf = m_e e^4 / (8 eps_0^2 h^3 c)": "R_inf - me*qp**4/(8*eps_0**2*h**3*c)",
    "Planck mass: m_pl^2 = hbar c / G": "m_pl**2 - hbar*c/G",
    "Planck length: l_pl^2 = hbar G / c^3": "l_pl**2 - hbar*G/c**3",
    "Planck time: t_pl = l_pl / c": "t_pl - l_pl/c",
    "Planck energy: E_pl = m_pl c^2": "E_pl - m_pl*c**2",
    "Planck temperature: T_pl = E_pl / k_B": "T_pl - E_pl/kb",
    "Planck charge: q_pl^2 = 4 pi eps_0 hbar c": "q_pl**2 - 4*pi*eps_0*hbar*c",
    "electron charge = - proton charge": "qe + qp",
}

# names that are both a unit symbol and a constant (statement: "denotes the same quantity
# either way")
UNIT_AND_CONSTANT = ["me", "mp", "c", "Msun", "Mjup", "Mearth", "m_pl", "l_pl", "t_pl", "E_pl",
                     "q_pl", "T_pl"]
