"""Independent definitions of the units in unyt's default table, written from the SI
brochure / legal definitions / published values -- NOT derived from /repo.  Used by the
ground obligations of C02/C08/C14/C15.

Each entry:  symbol -> (scale_in_SI_base_units, dimension, offset, class)
  scale      exact expression (string, parsed with sympy; 'pi' allowed)
  dimension  dict base-dimension -> exponent (strings; rationals allowed)
  offset     zero point in the unit's own degrees (string)
  class      'exact'    legal / SI definition: must agree exactly (symbolically)
             'codata'   measured constant, CODATA/NIST: relative tolerance 2e-6
             'astro'    IAU / astronomical nominal value: relative tolerance 2e-3
             'conv'     convention of this library (no external definition): only
                        dimension, offset and positivity are checked
"""
M, L, T, TH, AN, I, J, LG = ("mass", "length", "time", "temperature", "angle", "current_mks",
                             "luminous_intensity", "logarithmic")


def d(**kw):
    return {k: str(v) for k, v in kw.items()}


force = d(mass=1, length=1, time=-2)
energy = d(mass=1, length=2, time=-2)
power = d(mass=1, length=2, time=-3)
pressure = d(mass=1, length=-1, time=-2)
volume = d(length=3)
length = d(length=1)
mass = d(mass=1)
time = d(time=1)
temp = d(temperature=1)
angle = d(angle=1)
none = {}

LB = "45359237/100000000"             # international avoirdupois pound, kg (exact, 1959)
G0 = "980665/100000"                  # standard gravity m/s^2 (exact)
LBF = "(%s)*(%s)" % (LB, G0)
INCH = "254/10000"
FT = "3048/10000"
GAL_US = "231*(254/10000)**3"         # US gallon = 231 cubic inches (exact)
GAL_UK = "454609/100000000"           # imperial gallon = 4.54609 L (exact)

UNITS = {
    # SI base and named derived units (exact, coherent)
    "m": ("1", length, "0", "exact"), "g": ("1/1000", mass, "0", "exact"),
    "s": ("1", time, "0", "exact"), "K": ("1", temp, "0", "exact"),
    "rad": ("1", angle, "0", "exact"), "A": ("1", d(current_mks=1), "0", "exact"),
    "cd": ("1", d(luminous_intensity=1), "0", "exact"),
    "mol": ("6.02214076e23", none, "0", "codata"),
    "J": ("1", energy, "0", "exact"), "W": ("1", power, "0", "exact"),
    "Hz": ("1", d(time=-1), "0", "exact"), "N": ("1", force, "0", "exact"),
    "C": ("1", d(current_mks=1, time=1), "0", "exact"),
    "T": ("1", d(mass=1, time=-2, current_mks=-1), "0", "exact"),
    "Pa": ("1", pressure, "0", "exact"), "bar": ("100000", pressure, "0", "exact"),
    "V": ("1", d(mass=1, length=2, time=-3, current_mks=-1), "0", "exact"),
    "F": ("1", d(mass=-1, length=-2, time=4, current_mks=2), "0", "exact"),
    "H": ("1", d(mass=1, length=2, time=-2, current_mks=-2), "0", "exact"),
    "Ω": ("1", d(mass=1, length=2, time=-3, current_mks=-2), "0", "exact"),
    "Wb": ("1", d(mass=1, length=2, time=-2, current_mks=-1), "0", "exact"),
    "lm": ("1", d(luminous_intensity=1, angle=2), "0", "exact"),
    "lx": ("1", d(luminous_intensity=1, angle=2, length=-2), "0", "exact"),
    "Sv": ("1", d(length=2, time=-2), "0", "exact"),
    "nt": ("1", d(luminous_intensity=1, length=-2), "0", "exact"),
    "L": ("1/1000", volume, "0", "exact"), "ha": ("10000", d(length=2), "0", "exact"),
    "t": ("1000", mass, "0", "exact"),
    # CGS (Gaussian EM units are expressed in sqrt(g cm^3)/s etc.: scale = sqrt powers of 10)
    "dyn": ("1/100000", force, "0", "exact"), "erg": ("1/10000000", energy, "0", "exact"),
    "Ba": ("1/10", pressure, "0", "exact"),
    "G": ("sqrt(1/10)", d(mass="1/2", length="-1/2", time=-1), "0", "exact"),
    "statC": ("sqrt(1/1000)**3", d(mass="1/2", length="3/2", time=-1), "0", "exact"),
    "statA": ("sqrt(1/1000)**3", d(mass="1/2", length="3/2", time=-2), "0", "exact"),
    "statV": ("sqrt(1/1000)/10", d(mass="1/2", length="1/2", time=-1), "0", "exact"),
    "statohm": ("100", d(length=-1, time=1), "0", "exact"),
    "Mx": ("sqrt(1/1000)**3", d(mass="1/2", length="3/2", time=-1), "0", "exact"),
    # temperatures
    "degC": ("1", temp, "-27315/100", "exact"), "delta_degC": ("1", temp, "0", "exact"),
    "degF": ("5/9", temp, "-45967/100", "exact"), "delta_degF": ("5/9", temp, "0", "exact"),
    "R": ("5/9", temp, "0", "exact"),
    # imperial / US customary (international yard and pound agreement 1959, exact)
    "mil": ("254/10000000", length, "0", "exact"), "inch": (INCH, length, "0", "exact"),
    "ft": (FT, length, "0", "exact"), "yd": ("9144/10000", length, "0", "exact"),
    "mile": ("1609344/1000", length, "0", "exact"), "nmi": ("1852", length, "0", "exact"),
    "furlong": ("201168/1000", length, "0", "exact"),
    "mph": ("1609344/1000/3600", d(length=1, time=-1), "0", "exact"),
    "kt": ("1852/3600", d(length=1, time=-1), "0", "exact"),
    "acre": ("40468564224/10000000", d(length=2), "0", "exact"),
    "smoot": ("17018/10000", length, "0", "exact"),
    "lb": (LB, mass, "0", "exact"), "oz": ("(%s)/16" % LB, mass, "0", "exact"),
    "ton": ("2000*(%s)" % LB, mass, "0", "exact"),
    "ton_UK": ("2240*(%s)" % LB, mass, "0", "exact"),
    "slug": ("(%s)/(%s)" % (LBF, FT), mass, "0", "exact"),
    "lbf": (LBF, force, "0", "exact"), "kip": ("1000*(%s)" % LBF, force, "0", "exact"),
    "pli": ("(%s)/(%s)" % (LBF, INCH), d(mass=1, time=-2), "0", "exact"),
    "plf": ("(%s)/(%s)" % (LBF, FT), d(mass=1, time=-2), "0", "exact"),
    "psi": ("(%s)/(%s)**2" % (LBF, INCH), pressure, "0", "exact"),
    "psf": ("(%s)/(%s)**2" % (LBF, FT), pressure, "0", "exact"),
    "kli": ("1000*(%s)/(%s)" % (LBF, INCH), d(mass=1, time=-2), "0", "exact"),
    "klf": ("1000*(%s)/(%s)" % (LBF, FT), d(mass=1, time=-2), "0", "exact"),
    "ksi": ("1000*(%s)/(%s)**2" % (LBF, INCH), pressure, "0", "exact"),
    "ksf": ("1000*(%s)/(%s)**2" % (LBF, FT), pressure, "0", "exact"),
    "atm": ("101325", pressure, "0", "exact"),
    "hp": ("550*(%s)*(%s)" % (FT, LBF), power, "0", "exact"),
    "fl_oz_US": ("(%s)/128" % GAL_US, volume, "0", "exact"),
    "pt_US": ("(%s)/8" % GAL_US, volume, "0", "exact"),
    "qt_US": ("(%s)/4" % GAL_US, volume, "0", "exact"),
    "gal_US": (GAL_US, volume, "0", "exact"),
    "fl_oz_UK": ("(%s)/160" % GAL_UK, volume, "0", "exact"),
    "pt_UK": ("(%s)/8" % GAL_UK, volume, "0", "exact"),
    "qt_UK": ("(%s)/4" % GAL_UK, volume, "0", "exact"),
    "gal_UK": (GAL_UK, volume, "0", "exact"),
    # energies
    "cal": ("4184/1000", energy, "0", "exact"),            # thermochemical calorie
    "BTU": ("10550559/10000", energy, "0", "exact"),       # ISO 31-4 BTU = 1055.0559 J... (IT: 1055.05585262)
    "MMBTU": ("1000000*10550559/10000", energy, "0", "exact"),
    "therm": ("100000*10550559/10000", energy, "0", "exact"),
    "quad": ("10**15*10550559/10000", energy, "0", "exact"),
    "Wh": ("3600", energy, "0", "exact"),
    "eV": ("1.602176634e-19", energy, "0", "codata"),
    "foe": ("10**44", energy, "0", "exact"), "bethe": ("10**44", energy, "0", "exact"),
    "Ry": ("2.1798723611035e-18", energy, "0", "codata"),
    # dimensionless
    "dimensionless": ("1", none, "0", "exact"), "%": ("1/100", none, "0", "exact"),
    "counts": ("1", none, "0", "exact"), "photons": ("1", none, "0", "exact"),
    # times (Julian year)
    "min": ("60", time, "0", "exact"), "hr": ("3600", time, "0", "exact"),
    "day": ("86400", time, "0", "exact"), "week": ("604800", time, "0", "exact"),
    "fortnight": ("1209600", time, "0", "exact"), "yr": ("31557600", time, "0", "exact"),
    # astronomy
    "c": ("299792458", d(length=1, time=-1), "0", "exact"),
    "Msun": ("1.98841e30", mass, "0", "astro"), "Rsun": ("6.957e8", length, "0", "astro"),
    "Lsun": ("3.828e26", power, "0", "astro"), "Tsun": ("5772", temp, "0", "astro"),
    "Zsun": ("1", none, "0", "conv"), "Zsun_angr": ("1", none, "0", "conv"),
    "Zsun_aspl": ("1", none, "0", "conv"), "Zsun_feld": ("1", none, "0", "conv"),
    "Zsun_lodd": ("1", none, "0", "conv"),
    "Mjup": ("1.89813e27", mass, "0", "astro"), "Mearth": ("5.9722e24", mass, "0", "astro"),
    "Rjup": ("6.9911e7", length, "0", "astro"), "Rearth": ("6.371e6", length, "0", "astro"),
    "AU": ("149597870700", length, "0", "codata"),
    "ly": ("299792458*31557600", length, "0", "codata"),
    "pc": ("149597870700*648000/pi", length, "0", "codata"),
    # angles
    "degree": ("pi/180", angle, "0", "exact"), "arcmin": ("pi/180/60", angle, "0", "exact"),
    "arcsec": ("pi/180/3600", angle, "0", "exact"), "mas": ("pi/180/3600000", angle, "0", "exact"),
    "hourangle": ("pi/12", angle, "0", "exact"), "sr": ("1", d(angle=2), "0", "exact"),
    "lat": ("-pi/180", angle, "90", "exact"), "lon": ("pi/180", angle, "-180", "exact"),
    "rpm": ("2*pi/60", d(angle=1, time=-1), "0", "exact"), "rev": ("2*pi", angle, "0", "exact"),
    "spat": ("4*pi", d(angle=2), "0", "exact"), "gradian": ("pi/200", angle, "0", "exact"),
    # misc
    "amu": ("1.66053906660e-27", mass, "0", "codata"), "Å": ("1/10**10", length, "0", "exact"),
    "Jy": ("1/10**26", d(mass=1, time=-2), "0", "exact"),
    "me": ("9.1093837015e-31", mass, "0", "codata"), "mp": ("1.67262192369e-27", mass, "0", "codata"),
    "rayleigh": ("10**10/(4*pi)", d(length=-2, time=-1, angle=-2), "0", "exact"),
    "lambert": ("10000/pi", d(luminous_intensity=1, length=-2), "0", "exact"),
    # Planck units from G, hbar, c, k_B (values: CODATA, loose because G is known to 2e-5)
    "m_pl": ("2.176434e-8", mass, "0", "planck"), "l_pl": ("1.616255e-35", length, "0", "planck"),
    "t_pl": ("5.391247e-44", time, "0", "planck"), "T_pl": ("1.416784e32", temp, "0", "planck"),
    "q_pl": ("1.875546e-18", d(current_mks=1, time=1), "0", "planck"),
    "E_pl": ("1.956082e9", energy, "0", "planck"),
    "m_geom": ("1.98841e30", mass, "0", "astro"), "l_geom": ("1476.625", length, "0", "astro"),
    "t_geom": ("4.925491e-6", time, "0", "astro"),
    # logarithmic
    "B": ("log(10)/2", d(logarithmic=1), "0", "exact"), "Np": ("1", d(logarithmic=1), "0", "exact"),
}

RTOL = {"codata": "2e-6", "astro": "2e-3", "planck": "1e-4"}

# SI prefixes (BIPM): symbol -> (power of ten, word)
PREFIXES = {
    "Y": (24, "yotta"), "Z": (21, "zetta"), "E": (18, "exa"), "P": (15, "peta"),
    "T": (12, "tera"), "G": (9, "giga"), "M": (6, "mega"), "k": (3, "kilo"),
    "h": (2, "hecto"), "da": (1, "deca"), "d": (-1, "deci"), "c": (-2, "centi"),
    "m": (-3, "milli"), "u": (-6, "micro"), "μ": (-6, "micro"), "µ": (-6, "micro"),
    "n": (-9, "nano"), "p": (-12, "pico"), "f": (-15, "femto"), "a": (-18, "atto"),
    "z": (-21, "zepto"), "y": (-24, "yocto"),
}
