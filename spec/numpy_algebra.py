"""What the property statements C06 / C07 / C01 demand of each NumPy array function unyt
provides a handler for -- written from NumPy's documented mathematics (homogeneity degree of the
result in each array argument), NOT from /repo.

entry: numpy qualified name -> dict
  arrays   parameter names that are array-like (quantities in the verified configuration)
  seqs     parameter names that are sequences of arrays
  result   what the call returns:
             {"p": d, ...}        one unyt result, units == prod(units(p) ** d)   (C07)
             "bare"               indices / counts / booleans: must not carry units
             "none"               in-place operation, returns None
             "text"               a string
             ("tuple", [r0, r1..]) component-wise
             ("special", name)    exponent depends on shapes / flags (handled by name)
  merge    groups of parameters whose values end up in one array: their units must be equal
           (or converted) before NumPy is called (C01)
  writes   parameters written in place (everything else must stay untouched, C18)
  flags    {param: [values]}: parameters the handler branches on, enumerated concretely
"""
F = {}


def f(name, arrays=(), result=None, seqs=(), merge=(), writes=(), flags=None, note=""):
    F[name] = {"arrays": tuple(arrays), "seqs": tuple(seqs), "result": result,
               "merge": tuple(tuple(g) for g in merge), "writes": tuple(writes),
               "flags": dict(flags or {}), "note": note}


def same(p):
    return {p: 1}


# products: bilinear in both arguments
for n, (a, b) in {"dot": ("a", "b"), "vdot": ("a", "b"), "inner": ("a", "b"), "outer": ("a", "b"),
                  "kron": ("a", "b"), "cross": ("a", "b"), "tensordot": ("a", "b"),
                  "convolve": ("a", "v"), "correlate": ("a", "v"),
                  "linalg.outer": ("x1", "x2")}.items():
    f("numpy." + n, arrays=(a, b), result={a: 1, b: 1})
f("numpy.linalg.inv", arrays=("a",), result={"a": -1})
f("numpy.linalg.tensorinv", arrays=("a",), result={"a": -1})
f("numpy.linalg.pinv", arrays=("a",), result={"a": -1})
f("numpy.linalg.svd", arrays=("a",), flags={"compute_uv": [True, False]},
  result=("special", "svd"))            # (u, s, vh): s has degree 1, u/vh bare; s alone if not compute_uv
f("numpy.histogram", arrays=("a",), result=("special", "histogram"),
  flags={"density": [None, True], "weights": [None, "array"], "range": [None]})
# counts: a number per bin; with weights= the sum of the weights; with density=True divided by the bin
# area, i.e. by the units of every coordinate that carries units (a bare coordinate is a pure number)
f("numpy.histogram2d", arrays=("x", "y"), result=("special", "histogram2d"),
  flags={"density": [None, True], "weights": [None, "array"], "y": ["array", "bare"], "range": [None]})
f("numpy.histogramdd", seqs=("sample",), result=("special", "histogramdd"))
f("numpy.histogram_bin_edges", arrays=("a",), result=same("a"))
for n, p in {"concatenate": "arrays", "vstack": "tup", "hstack": "tup", "dstack": "tup",
             "column_stack": "tup", "stack": "arrays", "block": "arrays"}.items():
    f("numpy." + n, seqs=(p,), result=same(p), merge=[(p,)])
f("numpy.intersect1d", arrays=("ar1", "ar2"), merge=[("ar1", "ar2")],
  flags={"return_indices": [False, True]}, result=("special", "intersect1d"))
f("numpy.union1d", arrays=("ar1", "ar2"), merge=[("ar1", "ar2")], result=same("ar1"))
f("numpy.setdiff1d", arrays=("ar1", "ar2"), merge=[("ar1", "ar2")], result=same("ar1"))
f("numpy.linalg.norm", arrays=("x",), result=same("x"))
f("numpy.around", arrays=("a",), result=same("a"))
for n in ("fft", "fft2", "fftn", "hfft", "rfft", "rfft2", "rfftn", "ifft", "ifft2", "ifftn", "ihfft",
          "irfft", "irfft2", "irfftn"):
    f("numpy.fft." + n, arrays=("a",), result=same("a"))
f("numpy.fft.fftshift", arrays=("x",), result=same("x"))
f("numpy.fft.ifftshift", arrays=("x",), result=same("x"))
f("numpy.sort_complex", arrays=("a",), result=same("a"))
f("numpy.isclose", arrays=("a", "b"), merge=[("a", "b")], result="bare")
f("numpy.allclose", arrays=("a", "b"), merge=[("a", "b")], result="bare")
f("numpy.array_equal", arrays=("a1", "a2"), result="bare")
f("numpy.array_equiv", arrays=("a1", "a2"), result="bare")
f("numpy.linspace", arrays=("start", "stop"), merge=[("start", "stop")],
  flags={"retstep": [False, True]}, result=("special", "linspace"))
f("numpy.logspace", arrays=("start", "stop"), result=("special", "logspace"))
f("numpy.geomspace", arrays=("start", "stop"), merge=[("start", "stop")], result=same("start"))
f("numpy.copyto", arrays=("dst", "src"), merge=[("dst", "src")], writes=("dst",), result="none")
f("numpy.prod", arrays=("a",), result=("special", "prod"))
f("numpy.var", arrays=("a",), result={"a": 2})
f("numpy.trace", arrays=("a",), result=same("a"))
for n in ("percentile", "quantile", "nanpercentile", "nanquantile"):
    f("numpy." + n, arrays=("a",), result=same("a"))
f("numpy.linalg.det", arrays=("a",), result=("special", "det"))
f("numpy.linalg.lstsq", arrays=("a", "b"),
  result=("tuple", [{"b": 1, "a": -1}, {"b": 2}, "bare", {"a": 1}]))
f("numpy.linalg.solve", arrays=("a", "b"), result={"b": 1, "a": -1})
f("numpy.linalg.tensorsolve", arrays=("a", "b"), result={"b": 1, "a": -1})
f("numpy.linalg.eig", arrays=("a",), result=("tuple", [same("a"), "bare"]))
f("numpy.linalg.eigh", arrays=("a",), result=("tuple", [same("a"), "bare"]))
f("numpy.linalg.eigvals", arrays=("a",), result=same("a"))
f("numpy.linalg.eigvalsh", arrays=("a",), result=same("a"))
f("numpy.savetxt", arrays=("X",), result="bare")
f("numpy.diff", arrays=("a",), result=same("a"))
f("numpy.ediff1d", arrays=("ary",), result=same("ary"))
f("numpy.ptp", arrays=("a",), result=same("a"))
f("numpy.cumprod", arrays=("a",), result=("special", "always-raises"))
f("numpy.cumulative_prod", arrays=("x",), result=("special", "always-raises"))
f("numpy.pad", arrays=("array",), result=same("array"))
f("numpy.choose", arrays=(), seqs=("choices",), merge=[("choices",)], result=same("choices"))
f("numpy.fill_diagonal", arrays=("a", "val"), merge=[("a", "val")], writes=("a",), result="none")
f("numpy.insert", arrays=("arr", "values"), merge=[("arr", "values")], result=same("arr"))
f("numpy.isin", arrays=("element", "test_elements"), merge=[("element", "test_elements")], result="bare")
f("numpy.in1d", arrays=("ar1", "ar2"), merge=[("ar1", "ar2")], result="bare")
f("numpy.place", arrays=("arr", "vals"), merge=[("arr", "vals")], writes=("arr",), result="none")
f("numpy.put", arrays=("a", "v"), merge=[("a", "v")], writes=("a",), result="none")
f("numpy.put_along_axis", arrays=("arr", "values"), merge=[("arr", "values")], writes=("arr",), result="none")
f("numpy.putmask", arrays=("a", "values"), merge=[("a", "values")], writes=("a",), result="none")
f("numpy.searchsorted", arrays=("a", "v"), merge=[("a", "v")], result="bare")
f("numpy.select", seqs=("choicelist",), merge=[("choicelist",)], flags={"default": [0]},
  result=same("choicelist"))
f("numpy.sinc", arrays=("x",), result="bare", note="documented to ignore units")
f("numpy.clip", arrays=("a", "a_min", "a_max"), merge=[("a", "a_min", "a_max")], result=same("a"))
f("numpy.where", arrays=("x", "y"), merge=[("x", "y")], result=same("x"))
f("numpy.triu", arrays=("m",), result=same("m"))
f("numpy.tril", arrays=("m",), result=same("m"))
f("numpy.einsum", result=("special", "einsum"))
f("numpy.unwrap", arrays=("p",), result=same("p"))
f("numpy.interp", arrays=("x", "xp", "fp"), merge=[("x", "xp")], result=same("fp"))
f("numpy.array_repr", arrays=("arr",), result="text")
f("numpy.array2string", arrays=("a",), result="text")
f("numpy.trapezoid", arrays=("y", "x"), flags={"x": ["array", None], "dx": [1.0, "array"]},
  result=("special", "trapezoid"))     # integral of y over x (or with spacing dx): y.units * x.units (dx.units)
f("numpy.take", arrays=("a",), result=same("a"))
f("numpy.apply_over_axes", arrays=("a",), result=("special", "higher-order"))


# NumPy facts about the rank of results (used so that "a 0-d result must be a quantity" is not
# demanded of functions that never return 0-d arrays): joining / outer-product functions return
# arrays with at least one dimension
MIN_RANK_1 = {"numpy.concatenate", "numpy.stack", "numpy.vstack", "numpy.hstack", "numpy.dstack",
              "numpy.column_stack", "numpy.block", "numpy.outer", "numpy.linalg.outer", "numpy.kron"}
