#!/usr/bin/env python3-vt
"""Single entry point of the verification machinery:  vcheck.py <ID> [--tier quick|thorough]
[--repo /repo] [--replay FILE]

exit 0  property held on everything explored (known findings are printed, not alarmed)
exit 1  violation: a line  VIOLATION property=<id> replay=<path>[ no-failing-input-found]
exit 2  undecided (an obligation that is part of the claim could not be decided; no alarm)
exit 3  checker failure (crash, vacuity guard, zero obligations)
"""
import argparse
import fnmatch
import hashlib
import json
import os
import re
import subprocess
import sys
import time

HERE = os.path.dirname(os.path.abspath(__file__))
sys.path.insert(0, HERE)

from pyvc import run as R          # noqa: E402
import plans                       # noqa: E402

VENV_PY = "/venv/bin/python"


def load_known():
    p = os.path.join(HERE, "known_findings.json")
    if not os.path.exists(p):
        return []
    with open(p) as f:
        return json.load(f)["findings"]


def slug(s):
    s = re.sub(r"[^A-Za-z0-9_.-]+", "_", s)
    if len(s) > 80:
        s = s[:60] + "_" + hashlib.sha1(s.encode()).hexdigest()[:10]
    return s


def write_replay(pid, name, text):
    d = os.path.join(HERE, "replays", pid)
    os.makedirs(d, exist_ok=True)
    path = os.path.join(d, slug(name) + ".py")
    with open(path, "w") as f:
        f.write(text)
    return path


def run_replay(path, repo):
    """returns (reproduced: bool|None, output)"""
    env = dict(os.environ)
    env["PYTHONPATH"] = repo
    env["UNYT_VERIF_REPO"] = repo
    try:
        p = subprocess.run([VENV_PY, path], capture_output=True, text=True, timeout=300,
                           env=env, cwd="/")
    except subprocess.TimeoutExpired:
        return None, "replay timed out"
    out = (p.stdout + p.stderr)[-3000:]
    if p.returncode == 1:
        return True, out
    if p.returncode == 0:
        return False, out
    return None, out


def match_known(known, pid, kind, function, label, key=None, tag=None):
    for k in known:
        if k.get("property") != pid or k.get("status") != "known":
            continue
        m = k.get("match", {})
        if m.get("kind") != kind:
            continue
        if kind == "obligation":
            if m.get("function") == function and m.get("obligation") == label:
                if "tag_re" in m and not re.fullmatch(m["tag_re"], tag or ""):
                    continue
                return k
        elif kind in ("bounded", "ground"):
            if key is None:
                continue
            if "key" in m and key == m["key"]:
                return k
            if "key_re" in m and re.fullmatch(m["key_re"], key):
                return k
    return None


def main():
    ap = argparse.ArgumentParser()
    ap.add_argument("pid")
    ap.add_argument("--tier", default=os.environ.get("VERIF_TIER", "quick"))
    ap.add_argument("--repo", default="/repo")
    ap.add_argument("--replay", default=None)
    ap.add_argument("--no-bounded", action="store_true")
    ap.add_argument("--evidence-dir", default=os.path.join(HERE, "evidence"))
    args = ap.parse_args()
    pid = args.pid
    tier = args.tier if args.tier in ("quick", "thorough") else "quick"
    repo = os.path.abspath(args.repo)
    seed = int(os.environ.get("VERIF_SEED", "0") or 0)

    if args.replay:
        ok, out = run_replay(args.replay, repo)
        print(out)
        sys.exit(1 if ok else 0)

    plan = plans.PLANS.get(pid)
    if plan is None:
        print("no plan for property %s" % pid)
        sys.exit(3)

    t0 = time.time()
    known = load_known()
    os.environ["PYVC_KNOWN_IDS"] = ",".join(k["id"] for k in known
                                           if k.get("status") == "known")
    violations = []          # (what, replay_path, suffix)
    known_lines = []
    undecided = []
    crashes = []

    # ------------------------------------------------------------------ proofs
    specs = list(plan.proofs) + (list(plan.more_proofs) if tier == "thorough" else [])
    proof_reports = R.run_pool(R.run_proof_job, [(repo, spec) for spec in specs])
    lemma_reports = R.run_pool(R.run_lemma_job, list(plan.lemmas))
    n_obl = n_dis = 0
    n_known_obl = 0
    functions = []
    solver_time = 0.0
    backends = {}
    trusted = set(plan.trusted_base)
    samples = []
    from pyvc.contracts import _prop_of, belongs
    for rep in proof_reports:
        # obligations labelled with another property's id are that property's business
        bp = rep.get("by_property") or {"*": [rep["obligations"], rep["discharged"]]}
        mine = [v for k, v in bp.items() if k == "*" or pid in k.split("/")]
        rep["obligations"] = sum(v[0] for v in mine)
        rep["discharged"] = sum(v[1] for v in mine)
        rep["failed"] = [f for f in rep["failed"] if belongs(f["label"], pid)]
        rep["unknown"] = [u for u in rep["unknown"] if belongs(u, pid)]
        n_obl += rep["obligations"]
        n_dis += rep["discharged"]
        solver_time += rep.get("solver", {}).get("z3_time", 0) + rep.get(
            "solver", {}).get("cvc5_time", 0)
        for b, n in rep.get("backends", {}).items():
            backends[b] = backends.get(b, 0) + n
        functions.append({k: rep.get(k) for k in (
            "function", "tag", "paths", "obligations", "discharged", "time_s", "source_hash",
            "canary_refuted", "callees_by_contract", "abstract_contracts_crossed")})
        trusted.update(rep.get("assumptions", []))
        if rep.get("error"):
            crashes.append("%s: %s" % (rep["job"], rep["error"]))
            continue
        if rep["obligations"] == 0:
            crashes.append("%s: zero obligations generated (vacuity guard)" % rep["job"])
        if rep.get("canary_refuted") is False:
            crashes.append("%s: canary postcondition was proved (engine unsound or contract "
                           "vacuous)" % rep["job"])
        for u in rep["unknown"]:
            undecided.append("%s: %s (solver unknown)" % (rep["function"], u))
        for u in rep["undecided_paths"]:
            undecided.append("%s: path outside the modelled subset: %s" % (rep["function"], u))
        groups = {}
        for f in rep["failed"]:
            groups.setdefault((f["label"], f.get("exact", True)), []).append(f)
        for (label, exact), fs in groups.items():
            name = "%s%s: %s" % (rep["function"], "[" + rep["tag"] + "]" if rep.get("tag")
                                 else "", label)
            if not exact:
                undecided.append(name + " (counter-model crosses an abstract contract)")
                continue
            k = match_known(known, pid, "obligation", rep["function"], label, tag=rep.get("tag"))
            path, ok = None, None
            for n, f in enumerate(fs[:6]):
                text = f.get("replay")
                header = "# failed obligation: %s  (%d failing paths)\n# verifier model: %s\n" \
                         "# formula: %s\n" % (name, len(fs), json.dumps(f.get("model"),
                                               default=str), (f.get("formula") or "")[:300]
                                               .replace("\n", " "))
                if text:
                    p2 = write_replay(pid, name + ("_%d" % n if n else ""), header + text)
                    ok2, out = run_replay(p2, repo)
                    if path is None or ok2:
                        path, ok = p2, ok2
                    if ok2:
                        break
                elif path is None:
                    path = write_replay(pid, name, header + "import sys\nprint('no concrete "
                                        "input could be built from the verifier model')\n"
                                        "sys.exit(0)\n")
            if k is not None:
                known_lines.append("KNOWN-FINDING: property=%s %s [%s]" % (pid, k["what"], k["id"]))
                n_known_obl += len(fs)
                continue
            violations.append((name, path, "" if ok else " no-failing-input-found"))
    for lr in lemma_reports:
        n_obl += 1
        if lr["verdict"] == "unsat" and lr["hyps_satisfiable"]:
            n_dis += 1
            backends[lr["backend"]] = backends.get(lr["backend"], 0) + 1
        elif lr["verdict"] == "unsat":
            crashes.append("lemma %s: hypotheses unsatisfiable (vacuous)" % lr["lemma"])
        elif lr["verdict"] == "sat":
            k = match_known(known, pid, "obligation", "lemma", lr["lemma"])
            path = write_replay(pid, "lemma_" + lr["lemma"],
                                "# failed lemma %s\n# model: %s\nimport sys\nsys.exit(0)\n" % (
                                    lr["lemma"], (lr["model"] or "").replace("\n", " ")))
            if k:
                known_lines.append("KNOWN-FINDING: property=%s %s [%s]" % (pid, k["what"], k["id"]))
            else:
                violations.append(("lemma " + lr["lemma"], path, " no-failing-input-found"))
        elif lr["verdict"] == "error":
            crashes.append("lemma %s: %s" % (lr["lemma"], lr["model"]))
        else:
            undecided.append("lemma %s (solver unknown)" % lr["lemma"])
        solver_time += lr["time_s"]
        samples.append({"lemma": lr["lemma"], "verdict": lr["verdict"], "note": lr["note"]})

    # ------------------------------------------------------------------ ground
    ground_total = ground_ok = 0
    ground_samples = []
    for g in plan.ground:
        try:
            res = g(repo, tier)
        except Exception as e:
            import traceback
            crashes.append("ground %s: %s" % (getattr(g, "__name__", g), traceback.format_exc()[-800:]))
            continue
        ground_total += res["total"]
        ground_ok += res["ok"]
        ground_samples.extend(res.get("samples", [])[:3])
        trusted.update(res.get("assumptions", []))
        for f in res["failures"]:
            k = match_known(known, pid, "ground", None, None, key=f["key"])
            if k:
                known_lines.append("KNOWN-FINDING: property=%s %s [%s]" % (pid, k["what"], k["id"]))
                n_known_obl += 1
                continue
            path = write_replay(pid, "ground_" + f["key"], f.get("replay") or (
                "# ground obligation failed: %s\n# %s\nimport sys\nsys.exit(0)\n" % (
                    f["key"], f.get("what", ""))))
            ok, out = run_replay(path, repo) if f.get("replay") else (None, "")
            violations.append(("ground " + f["key"] + ": " + f.get("what", ""), path,
                               "" if ok else " no-failing-input-found"))
    n_obl += ground_total
    n_dis += ground_ok
    if ground_total:
        backends["ground-exact-eval"] = ground_total

    # ------------------------------------------------------------------ bounded stand-in
    bounded = None
    if plan.bounded and not args.no_bounded:
        script, qargs, targs = plan.bounded
        cmd = [VENV_PY, os.path.join(HERE, script), "--tier", tier, "--seed", str(seed)] + list(
            targs if tier == "thorough" else qargs)
        env = dict(os.environ)
        env["PYTHONPATH"] = repo
        env["UNYT_VERIF_REPO"] = repo
        try:
            p = subprocess.run(cmd, capture_output=True, text=True, env=env, cwd="/",
                               timeout=plan.bounded_timeout(tier))
            line = [ln for ln in p.stdout.splitlines() if ln.startswith("BOUNDED-JSON ")]
            if not line:
                crashes.append("bounded driver produced no result: rc=%s %s" % (
                    p.returncode, (p.stdout + p.stderr)[-1500:]))
            else:
                bounded = json.loads(line[-1][len("BOUNDED-JSON "):])
        except subprocess.TimeoutExpired:
            crashes.append("bounded driver timed out")
        if bounded:
            seen_known = set()
            for f in bounded.get("failures", []):
                k = match_known(known, pid, "bounded", None, None, key=f["key"])
                if k:
                    if k["id"] not in seen_known:
                        known_lines.append("KNOWN-FINDING: property=%s %s [%s]" % (
                            pid, k["what"], k["id"]))
                        seen_known.add(k["id"])
                    continue
                path = write_replay(pid, "bounded_" + f["key"], f.get("replay") or (
                    "# bounded case failed: %s\n# %s\nimport sys\nsys.exit(0)\n" % (
                        f["key"], f.get("what", ""))))
                ok, out = run_replay(path, repo) if f.get("replay") else (None, "")
                violations.append(("bounded " + f["key"] + ": " + f.get("what", "")[:200], path,
                                   "" if ok else " no-failing-input-found"))

    # ------------------------------------------------------------------ verdict + evidence
    wall = time.time() - t0
    level = plan.level
    for rep in proof_reports[:4]:
        samples.append({"function": rep.get("function"), "paths": rep.get("paths"),
                        "obligations": rep.get("obligations"), "discharged": rep.get("discharged")})
    coverage = {
        "obligations": n_obl - n_known_obl, "discharged": n_dis,
        "obligations_failing_by_listed_known_finding": n_known_obl,
        "checker_cmd": "python3-vt /verif/vcheck.py %s --tier %s  (pyvc: ast -> VCs -> z3 %s, "
                       "cvc5 fallback)" % (pid, tier, "5.1"),
        "trusted_base": sorted(trusted),
        "functions_under_contract": functions,
        "backends": backends, "solver_time_s": round(solver_time, 3),
        "lemmas": [{"lemma": l["lemma"], "verdict": l["verdict"], "backend": l["backend"],
                    "time_s": l["time_s"]} for l in lemma_reports],
        "ground": {"obligations": ground_total, "discharged": ground_ok, "exhaustive": True,
                   "samples": ground_samples},
        "undecided": undecided[:40],
        "known_findings_reported": known_lines,
        "samples": samples or [{"note": "no samples"}],
        "explanation": plan.explanation,
    }
    if bounded:
        coverage["bounded"] = {k: bounded.get(k) for k in (
            "evaluations", "distinct_nontrivial", "rule", "samples", "bound", "exhaustive")}
        coverage["bounded"]["label"] = "bounded stand-in; never counted as proved"
        coverage["evaluations"] = bounded.get("evaluations", 0)
        coverage["distinct_nontrivial"] = bounded.get("distinct_nontrivial", 0)
        coverage["rule"] = bounded.get("rule", "")
        if level != "proof":
            coverage["samples"] = (bounded.get("samples") or [])[:5] + coverage["samples"][:3]
    # every assumed (unchecked) contract the encoding rests on: the registries of the domains
    # and of the contract modules used by this property's proof jobs
    assumed_contracts = []
    if specs:
        try:
            import importlib
            from pyvc import unyt_domain as _UD, np_domain as _ND, handlers as _HD   # noqa: F401
            for _m in sorted({m for m, _ in specs} | {m for m, _ in plan.lemmas}):
                importlib.import_module(_m)
            assumed_contracts = ["assumed[%s]: %s" % kv for kv in sorted(_UD.ASSUMED.items())]
            used = set()
            for rep in proof_reports:
                used.update(rep.get("abstract_contracts_crossed") or [])
            assumed_contracts += ["trusted contract crossed (not verified against its body): %s" % u for u in sorted(used)]
            assumed_contracts.append("assumed NumPy / stdlib call models (one line each in pyvc/np_domain.py ASSUMED_NP): "
                                     + ", ".join(sorted(_ND.ASSUMED_NP)))
        except Exception as _e:
            assumed_contracts = ["(assumption registry could not be read: %r)" % (_e,)]
    ev = {
        "property_id": pid, "tier": tier, "seed": seed, "level": level,
        "coverage": coverage,
        "assumptions": sorted(trusted) + list(plan.assumptions) + assumed_contracts,
        "wall_s": round(wall, 2), "violations": len(violations),
    }
    os.makedirs(args.evidence_dir, exist_ok=True)
    with open(os.path.join(args.evidence_dir, pid + ".json"), "w") as f:
        json.dump(ev, f, indent=1, default=str)

    for ln in sorted(set(known_lines)):
        print(ln)
    print("%s tier=%s obligations=%d discharged=%d ground=%d/%d bounded=%s undecided=%d "
          "wall=%.1fs" % (pid, tier, n_obl, n_dis, ground_ok, ground_total,
                          bounded.get("evaluations") if bounded else "-", len(undecided), wall))
    if crashes:
        for c in crashes:
            print("CHECKER-FAILURE: " + c)
    for what, path, suffix in violations:
        print("violated: " + what)
        print("VIOLATION property=%s replay=%s%s" % (pid, path, suffix))
    if violations:
        sys.exit(1)
    if crashes:
        sys.exit(3)
    if undecided:
        for u in undecided[:20]:
            print("UNDECIDED: " + u)
        sys.exit(2)
    sys.exit(0)


if __name__ == "__main__":
    main()
