#!/bin/bash
# offline setup: nothing to build; byte-compile and run the engine smoke test (canaries)
set -e
cd "$(dirname "$0")"
python3-vt -m compileall -q pyvc contracts plans.py vcheck.py >/dev/null
python3-vt -c "import z3, sys; sys.path.insert(0,'.'); import pyvc.core, contracts; print('pyvc ok, z3', z3.get_version_string())"
/venv/bin/python -c "import unyt, numpy; print('unyt importable under /venv', numpy.__version__)"
