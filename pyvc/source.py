"""Reads the real source of the package under verification with `ast` on every run.

Nothing is imported or executed: an edit to a function body is seen on the next run,
and an edit that breaks import-time behaviour cannot hide from the verifier.
"""
import ast
import hashlib
import os


class FuncInfo:
    def __init__(self, qualname, module, node, cls=None):
        self.qualname = qualname          # e.g. unyt.unit_object.Unit.__mul__
        self.module = module              # ModuleInfo
        self.node = node                  # ast.FunctionDef
        self.cls = cls                    # ClassInfo or None
        self.decorators = [ast.unparse(d) for d in node.decorator_list]

    @property
    def is_property(self):
        return "property" in self.decorators

    @property
    def is_memoised(self):
        """decorated with functools.lru_cache or a cache wrapper of the package"""
        return any(d.split("(")[0].split(".")[-1] in ("lru_cache", "cache", "_unit_rule_cache")
                   for d in self.decorators)

    @property
    def is_staticmethod(self):
        return "staticmethod" in self.decorators

    @property
    def is_classmethod(self):
        return "classmethod" in self.decorators

    def source_hash(self):
        return hashlib.sha256(ast.dump(self.node).encode()).hexdigest()[:16]


class ClassInfo:
    def __init__(self, qualname, module, node):
        self.qualname = qualname
        self.module = module
        self.node = node
        self.name = node.name
        self.bases = [ast.unparse(b) for b in node.bases]
        self.methods = {}                 # name -> FuncInfo
        self.class_assigns = {}           # name -> ast expr

    def __repr__(self):
        return "<class %s>" % self.qualname


class ModuleInfo:
    def __init__(self, name, path):
        self.name = name
        self.path = path
        with open(path) as f:
            self.text = f.read()
        self.tree = ast.parse(self.text)
        self.functions = {}               # local name -> FuncInfo (top level; also
        #                                   conditional top-level defs: last one wins,
        #                                   all kept in all_functions)
        self.all_functions = []           # every FunctionDef at module level incl. in if/else
        self.classes = {}                 # local name -> ClassInfo
        self.imports = {}                 # local name -> ('module', fullname) | ('from', module, name)
        self.assigns = {}                 # local name -> ast expr (last top-level assignment)
        self._index(self.tree.body, top=True)

    def _index(self, body, top):
        for st in body:
            if isinstance(st, ast.FunctionDef):
                fi = FuncInfo(self.name + "." + st.name, self, st)
                self.functions[st.name] = fi
                self.all_functions.append(fi)
            elif isinstance(st, ast.ClassDef):
                ci = ClassInfo(self.name + "." + st.name, self, st)
                for s2 in st.body:
                    if isinstance(s2, ast.FunctionDef):
                        ci.methods[s2.name] = FuncInfo(
                            ci.qualname + "." + s2.name, self, s2, ci)
                    elif isinstance(s2, ast.Assign):
                        for t in s2.targets:
                            if isinstance(t, ast.Name):
                                ci.class_assigns[t.id] = s2.value
                self.classes[st.name] = ci
            elif isinstance(st, ast.Import):
                for a in st.names:
                    local = a.asname or a.name.split(".")[0]
                    full = a.name if a.asname else a.name.split(".")[0]
                    self.imports[local] = ("module", full)
            elif isinstance(st, ast.ImportFrom):
                mod = st.module or ""
                if st.level:
                    pkg = self.name.rsplit(".", st.level)[0]
                    mod = pkg + ("." + mod if mod else "")
                for a in st.names:
                    self.imports[a.asname or a.name] = ("from", mod, a.name)
            elif isinstance(st, ast.Assign):
                for t in st.targets:
                    if isinstance(t, ast.Name):
                        self.assigns[t.id] = st.value
            elif isinstance(st, ast.AnnAssign) and isinstance(st.target, ast.Name) and st.value:
                self.assigns[st.target.id] = st.value
            elif isinstance(st, ast.If):
                # module-level version switches: index both arms; the arm for the current
                # NumPy (>= 2) wins on a name clash: the `if` arm of `X >= v`, the `else`
                # arm of `X < v`
                test = ast.unparse(st.test)
                if "VERSION <" in test and ">=" not in test:
                    self._index(st.body, top=False)
                    self._index(st.orelse, top=False)
                else:
                    self._index(st.orelse, top=False)
                    self._index(st.body, top=False)


class Repo:
    def __init__(self, root="/repo", package="unyt"):
        self.root = root
        self.package = package
        self.modules = {}
        pkgdir = os.path.join(root, package)
        for fn in sorted(os.listdir(pkgdir)):
            if fn.endswith(".py"):
                modname = package if fn == "__init__.py" else package + "." + fn[:-3]
                try:
                    self.modules[modname] = ModuleInfo(modname, os.path.join(pkgdir, fn))
                except SyntaxError as e:      # a tree that does not parse cannot be verified
                    raise RuntimeError("cannot parse %s: %s" % (fn, e))
        self.exc_hierarchy = self._exception_hierarchy()

    def module(self, name):
        return self.modules[name]

    def func(self, qualname):
        """Look up a function by qualified name: pkg.mod.func or pkg.mod.Class.meth"""
        parts = qualname.split(".")
        for i in range(len(parts) - 1, 0, -1):
            mod = ".".join(parts[:i])
            if mod in self.modules:
                m = self.modules[mod]
                rest = parts[i:]
                if len(rest) == 1:
                    return m.functions.get(rest[0])
                if len(rest) == 2 and rest[0] in m.classes:
                    return m.classes[rest[0]].methods.get(rest[1])
        return None

    def cls(self, qualname):
        mod, _, name = qualname.rpartition(".")
        m = self.modules.get(mod)
        return m.classes.get(name) if m else None

    def find_class(self, name):
        for m in self.modules.values():
            if name in m.classes:
                return m.classes[name]
        return None

    def mro(self, ci):
        """linearised ancestors within the package (single inheritance in this code base)"""
        out = [ci]
        seen = {ci.qualname}
        work = list(ci.bases)
        while work:
            b = work.pop(0)
            base = b.split(".")[-1]
            c = ci.module.classes.get(base) or self.find_class(base)
            if c and c.qualname not in seen:
                out.append(c)
                seen.add(c.qualname)
                work.extend(c.bases)
        return out

    def find_method(self, ci, name):
        for c in self.mro(ci):
            if name in c.methods:
                return c.methods[name]
        return None

    def _exception_hierarchy(self):
        h = dict(BUILTIN_EXC)
        m = self.modules.get(self.package + ".exceptions")
        if m:
            for c in m.classes.values():
                h[c.name] = [b.split(".")[-1] for b in c.bases]
        return h

    def exc_issubclass(self, name, base):
        if name == base:
            return True
        seen = set()
        work = [name]
        while work:
            n = work.pop()
            if n in seen:
                continue
            seen.add(n)
            for b in self.exc_hierarchy.get(n, []):
                if b == base:
                    return True
                work.append(b)
        return False


BUILTIN_EXC = {
    "BaseException": [],
    "Exception": ["BaseException"],
    "ArithmeticError": ["Exception"],
    "ZeroDivisionError": ["ArithmeticError"],
    "OverflowError": ["ArithmeticError"],
    "LookupError": ["Exception"],
    "KeyError": ["LookupError"],
    "IndexError": ["LookupError"],
    "ValueError": ["Exception"],
    "TypeError": ["Exception"],
    "AttributeError": ["Exception"],
    "RuntimeError": ["Exception"],
    "NotImplementedError": ["RuntimeError"],
    "AssertionError": ["Exception"],
    "StopIteration": ["Exception"],
    "SyntaxError": ["Exception"],
    "NameError": ["Exception"],
    "RecursionError": ["RuntimeError"],
    "UnicodeDecodeError": ["ValueError"],
    "Warning": ["Exception"],
    "RuntimeWarning": ["Warning"],
    "UserWarning": ["Warning"],
    "DeprecationWarning": ["Warning"],
    "FutureWarning": ["Warning"],
}
