"""Semantic domain for verifying yt-project/unyt with pyvc: symbolic models of the values
the package manipulates (dimensions, sympy expressions, unit tables, Unit / registry /
array objects) and *assumed* contracts for the external functions it calls (builtins,
sympy, numpy).  Every assumed external contract is listed in ASSUMED (reported in the
evidence of each check that crosses it).
"""
import ast
from fractions import Fraction

import z3

from .core import (SV, SObj, SExc, ExcClassRef, FuncRef, ClassRef, ModuleRef, ExternalRef,
                   Intrinsic, Opaque, BoundMethod, Closure, MISSING, Unsupported, PyRaise,
                   Infeasible, is_z3, is_num, is_str, is_bool, is_floaty, to_z3, to_real,
                   const_float, Frame)

BASE_DIMS = ["mass", "length", "time", "temperature", "angle", "current_mks",
             "luminous_intensity", "logarithmic"]
NDIM = len(BASE_DIMS)
# fixed identity tokens of the sympy singletons (Symbol objects of unyt.dimensions, S.One)
REF_ONE = 100
REF_BASE = {n: 101 + i for i, n in enumerate(BASE_DIMS)}

ASSUMED = {}


def assumed(name, text):
    ASSUMED[name] = text


assumed("float-as-real", "Python float arithmetic is modelled as exact real arithmetic "
        "(rounding, overflow, NaN/inf outside the model)")
assumed("sympy-dims", "sympy dimension expressions form the free abelian group on the 8 base "
        "symbols with rational/real exponents; ==, *, /, ** are the group operations; "
        "arithmetic returns operand atoms by reference (hash-consed Symbol / S.One)")
assumed("fstrings", "f-strings / % formatting used for messages are total and pure")
assumed("lru_cache", "a memoised unit rule returns what its body computes for the given key or for an "
        "earlier key that is == and hash-equal (same registries); field values of the result are those "
        "of the current arguments (units equal under Unit.__eq__ are identified), its identity is left "
        "open (both the very argument object and an equal copy are explored)")


# ------------------------------------------------------------------------------ dims
class SDim(SV):
    """a sympy dimension expression: exponent vector over the base dimensions + identity"""

    def __init__(self, vec, ref):
        self.vec = tuple(vec)
        self.ref = ref                      # z3 Int (or python int for singletons)

    def __repr__(self):
        return "<dim %s>" % (self.vec,)

    def sv_pyclass(self):
        return "Expr"

    @staticmethod
    def one():
        return SDim([Fraction(0)] * NDIM, REF_ONE)

    @staticmethod
    def base(name):
        return SDim([Fraction(1) if n == name else Fraction(0) for n in BASE_DIMS],
                    REF_BASE[name])

    @staticmethod
    def fresh(it, label="d", canon=True):
        vec = [z3.Real(it.ctx.fresh_name("%s_%s" % (label, n[:4]))) for n in BASE_DIMS]
        d = SDim(vec, z3.Int(it.ctx.fresh_name(label + "_ref")))
        it.assume(d.identity_implies_equality())
        if canon:
            it.assume(d.canon())
        return d

    def vec_eq(self, other_vec):
        cs = []
        for a, b in zip(self.vec, other_vec):
            if not is_z3(a) and not is_z3(b):
                if a != b:
                    return False
                continue
            cs.append(to_real(a) == to_real(b))
        if not cs:
            return True
        return z3.And(*cs) if len(cs) > 1 else cs[0]

    def eq(self, other):
        return self.vec_eq(other.vec)

    def is_one(self):
        return self.vec_eq([Fraction(0)] * NDIM)

    def is_base(self, name):
        return self.vec_eq(SDim.base(name).vec)

    def singletons(self):
        return [(SDim.one().vec, REF_ONE)] + [(SDim.base(n).vec, REF_BASE[n]) for n in BASE_DIMS]

    def canon(self):
        """value equal to a singleton's  =>  identical to that singleton"""
        cs = []
        for vec, ref in self.singletons():
            e = self.vec_eq(vec)
            if e is False:
                continue
            cs.append(z3.Implies(_b(e), to_z3(self.ref) == ref))
        return z3.And(*cs) if cs else True

    def identity_implies_equality(self):
        """the value of a dimension object is a function of its identity: DV_i(ref) == vec_i
        (so two references to one object always compare equal)"""
        return z3.And(*[DV[i](to_z3(self.ref)) == to_real(x) for i, x in enumerate(self.vec)])

    def _arith_result(self, it, vec):
        d = SDim(vec, z3.Int(it.ctx.fresh_name("dref")))
        # concrete vectors equal to a singleton get the singleton's reference outright
        if all(not is_z3(x) for x in vec):
            for v, ref in self.singletons():
                if tuple(v) == tuple(vec):
                    return SDim(vec, ref)
        it.assume(d.identity_implies_equality())
        it.assume(d.canon())              # assumed sympy fact (ASSUMED['sympy-dims'])
        return d

    def sv_binop(self, it, op, other, reflected):
        other = const_float(other)
        if op in ("*", "/"):
            if isinstance(other, SDim):
                a, b = (other, self) if reflected else (self, other)
                sign = 1 if op == "*" else -1
                return self._arith_result(it, [_add(x, _scale(y, sign)) for x, y in
                                               zip(a.vec, b.vec)])
            if is_num(other) and not is_z3(other) and other == 1:
                if op == "*":
                    return self
                if reflected:            # 1 / dim
                    return self._arith_result(it, [_scale(x, -1) for x in self.vec])
                return self
            return NotImplemented
        if op == "**" and not reflected:
            if isinstance(other, SRat):
                other = other.value
            if isinstance(other, SExpr):
                other = e_numval(other.term)          # a sympy Number exponent
            if is_num(other):
                return self._arith_result(it, [_scale(x, other) for x in self.vec])
        return NotImplemented

    def sv_compare(self, it, op, other, reflected):
        other = const_float(other)
        if isinstance(other, SDim):
            e = self.eq(other)
        elif is_num(other) and not is_z3(other):
            e = self.is_one() if other == 1 else False
        elif isinstance(other, SExpr):
            e = z3.And(_b(self.is_one()), other.is_one)
        else:
            return NotImplemented
        if op == "==":
            return e
        if op == "!=":
            return it.not_(e)
        return NotImplemented

    def sv_truth(self, it):
        return True

    def sv_str(self, it):
        return it.fresh_str("dimstr")

    def sv_getattr(self, it, name):
        if name == "is_Mul" or name == "is_Pow" or name == "is_Number" or name == "is_Atom":
            raise Unsupported("structural query %s on dimension" % name)
        if name in ("is_Unit", "units", "value", "shape", "registry", "dimensions", "expr"):
            raise PyRaise("AttributeError")
        raise Unsupported("dimension attribute %s" % name)


DV = [z3.Function("dimval_%d" % i, z3.IntSort(), z3.RealSort()) for i in range(NDIM)]


def singleton_axioms():
    cs = []
    for d in [SDim.one()] + [SDim.base(n) for n in BASE_DIMS]:
        cs.append(d.identity_implies_equality())
    return cs


def _b(e):
    return z3.BoolVal(e) if isinstance(e, bool) else e


def _add(x, y):
    if not is_z3(x) and not is_z3(y):
        return x + y
    return to_real(x) + to_real(y)


def _scale(x, k):
    if not is_z3(x) and not is_z3(k):
        return x * k
    if not is_z3(x) and x == 0:
        return Fraction(0)
    return to_real(x) * to_real(k)


class SNumStr(SV):
    """str(p) of a number p: an opaque string that remembers the number it prints"""

    def __init__(self, p):
        self.p = p

    def sv_pyclass(self):
        return "str"

    def sv_str(self, it):
        return self


class SRat(SV):
    """sympy Rational produced by Rational(str(p)).limit_denominator(): assumed to denote p"""

    def __init__(self, value):
        self.value = value

    def sv_pyclass(self):
        return "Rational"

    def sv_compare(self, it, op, other, reflected):
        return it.compare(op, self.value, other.value if isinstance(other, SRat) else other)

    def sv_binop(self, it, op, other, reflected):
        o = other.value if isinstance(other, SRat) else other
        if not is_num(o):
            return NotImplemented
        return SRat(it.binop(op, o, self.value) if reflected else it.binop(op, self.value, o))

    def sv_str(self, it):
        return it.fresh_str("ratstr")


# ------------------------------------------------------------------------------ sympy exprs
ExprSort = z3.DeclareSort("SympyExpr")
e_mul = z3.Function("e_mul", ExprSort, ExprSort, ExprSort)
e_div = z3.Function("e_div", ExprSort, ExprSort, ExprSort)
e_pow = z3.Function("e_pow", ExprSort, z3.RealSort(), ExprSort)
e_str = z3.Function("e_str", ExprSort, z3.StringSort())
e_kind = z3.Function("e_kind", ExprSort, z3.IntSort())      # 0 Number 1 Symbol 2 Pow 3 Mul 4 other
e_num = z3.Function("e_num", z3.RealSort(), ExprSort)        # Number node
e_sym = z3.Function("e_sym", z3.StringSort(), ExprSort)      # Symbol(name, positive=True)
e_numval = z3.Function("e_numval", ExprSort, z3.RealSort())
E_ONE = z3.Const("E_ONE", ExprSort)
K_NUM, K_SYM, K_POW, K_MUL, K_OTHER = 0, 1, 2, 3, 4


CONST_NAMES = {}      # z3 term id -> python str: expressions whose printed form is a known constant


def expr_str(term):
    """str(expr): a constant when the expression was introduced with a known name (so that
    every string predicate on it folds to a boolean), else the uninterpreted e_str(term)"""
    n = CONST_NAMES.get(term.get_id())
    if n is not None:
        return z3.StringVal(n)
    return e_str(term)


def name_expr(it, expr, name):
    """declare that the expression prints as `name` (an atomic Symbol)"""
    CONST_NAMES[expr.term.get_id()] = name
    it.assume(e_str(expr.term) == z3.StringVal(name))
    it.assume(expr.term != E_ONE)
    it.assume(e_kind(expr.term) == K_SYM)


class SExpr(SV):
    """a sympy expression used as the symbolic part of a Unit (uninterpreted term)"""

    def __init__(self, term):
        self.term = term

    def __repr__(self):
        return "<expr %s>" % self.term

    def sv_pyclass(self):
        return "Expr"

    @property
    def is_one(self):
        return self.term == E_ONE

    @staticmethod
    def fresh(it, label="e"):
        return SExpr(z3.Const(it.ctx.fresh_name(label), ExprSort))

    def sv_binop(self, it, op, other, reflected):
        other = const_float(other)
        if isinstance(other, SExpr):
            a, b = (other, self) if reflected else (self, other)
            if op == "*":
                return SExpr(e_mul(a.term, b.term))
            if op == "/":
                return SExpr(e_div(a.term, b.term))
        if isinstance(other, SRat):
            other = other.value
        if is_num(other):
            if op == "**" and not reflected:
                return SExpr(e_pow(self.term, to_real(other)))
            n = SExpr(e_num(to_real(other)))
            if op == "*":
                return SExpr(e_mul(n.term, self.term) if reflected else e_mul(self.term, n.term))
            if op == "/":
                return SExpr(e_div(n.term, self.term) if reflected else e_div(self.term, n.term))
        return NotImplemented

    def sv_compare(self, it, op, other, reflected):
        if isinstance(other, SExpr):
            e = self.term == other.term
        elif isinstance(other, SDim):
            e = z3.And(self.is_one, _b(other.is_one()))
        elif is_num(other) and not is_z3(other) and other == 1:
            e = self.is_one
        else:
            return NotImplemented
        if op == "==":
            return e
        if op == "!=":
            return z3.Not(e)
        return NotImplemented

    def sv_str(self, it):
        return expr_str(self.term)

    def sv_getattr(self, it, name):
        if name == "name":
            # only Symbols have a name (Number, Pow, Mul, ... raise AttributeError)
            if not it.branch(e_kind(self.term) == K_SYM):
                raise PyRaise("AttributeError")
            return expr_str(self.term)
        if name == "__repr__" or name == "__str__":
            return Intrinsic("expr." + name, lambda it_, s=self: expr_str(s.term))
        if name == "is_Atom":
            return z3.Or(e_kind(self.term) == K_NUM, e_kind(self.term) == K_SYM)
        if name == "copy":
            return Intrinsic("expr.copy", lambda it_, s=self: s)
        if name == "as_coeff_Mul":
            return Intrinsic("expr.as_coeff_Mul", lambda it_, s=self: as_coeff_mul(it_, s))
        if name in ("is_Unit", "units", "value", "shape", "registry", "dimensions", "expr"):
            raise PyRaise("AttributeError")
        if name == "args":
            # structural children (assumed sympy ADT): Pow has (base, exponent); a Mul has at
            # least two factors -- two arbitrary ones stand for all (each is handled by the same
            # recursive call, i.e. through the function's own contract)
            if not hasattr(self, "_args"):
                self._args = (SExpr.fresh(it, "arg0"), SExpr.fresh(it, "arg1"))
            return self._args
        if name in ("is_finite", "is_real", "is_Number", "is_Symbol", "is_Mul", "is_Pow"):
            # three-valued in sympy (True / False / None): any of them
            if not hasattr(self, "_flags"):
                self._flags = {}
            if name not in self._flags:
                self._flags[name] = it.fresh_bool("sympy_" + name)
            return self._flags[name]
        raise Unsupported("sympy attribute %s" % name)

    def sv_float(self, it):
        # float(expr): every sympy Number converts (oo -> inf, nan -> nan); any other expression
        # either evaluates to a real number or raises TypeError ("Cannot convert ... to float")
        if it.branch(e_kind(self.term) == K_NUM):
            return e_numval(self.term)
        if it.branch(it.fresh_bool("evaluates_to_real")):
            return it.fresh_real("evalf")
        it.raise_("TypeError")


def as_coeff_mul(it, e):
    """expr.as_coeff_Mul(): (c, m) with expr == c*m, c a positive Number (assumed sympy fact;
    unit expressions only ever carry positive numeric coefficients)"""
    c = it.fresh_real("coeff")
    m = SExpr.fresh(it, "mulpart")
    it.assume(c > 0)
    it.assume(e.term == e_mul(e_num(c), m.term))
    return (SCoeff(c), m)


class SCoeff(SV):
    """sympy Number returned by as_coeff_Mul"""

    def __init__(self, v):
        self.v = v

    def sv_pyclass(self):
        return "Number"

    def sv_float(self, it):
        return self.v

    def sv_compare(self, it, op, other, reflected):
        return it.compare(op, self.v, other)


assumed("sympy-expr", "sympy unit expressions are uninterpreted terms with *, /, ** as "
        "uninterpreted functions; str(expr)==repr(expr) is a function of the expression")


# ------------------------------------------------------------------------------ unit table
RowSort = z3.Datatype("Row")
RowSort.declare("row", ("present", z3.BoolSort()), ("scale", z3.RealSort()),
                *[("d%d" % i, z3.RealSort()) for i in range(NDIM)],
                ("dref", z3.IntSort()), ("offset", z3.RealSort()), ("tex", z3.StringSort()),
                ("prefixable", z3.BoolSort()), ("derived", z3.BoolSort()))
RowSort = RowSort.create()
LutSort = z3.ArraySort(z3.StringSort(), RowSort)


def row_dim(r):
    return SDim([getattr(RowSort, "d%d" % i)(r) for i in range(NDIM)], RowSort.dref(r))


class RowTuple(tuple):
    """a table row read back from a symbolic table: the 5-tuple plus the row term (so that the
    marker class of generated rows, _DerivedEntry, can be tested with isinstance)"""
    row = None


class MarkedTuple(tuple):
    """instance of a plain tuple subclass of the package used as a marker (e.g. _DerivedEntry)"""
    mark = None


def row_tuple(r):
    t = RowTuple((RowSort.scale(r), row_dim(r), RowSort.offset(r), RowSort.tex(r),
                  RowSort.prefixable(r)))
    t.row = r
    return t


def make_row(it, tup):
    if not isinstance(tup, tuple) or len(tup) != 5:
        raise Unsupported("table row is not a 5-tuple: %r" % (tup,))
    scale, dim, offset, tex, pref = tup
    if not isinstance(dim, SDim):
        raise Unsupported("row dimension %r" % (dim,))
    if isinstance(tex, SV) or tex is None:
        tex = it.fresh_str("tex")
    if isinstance(tup, RowTuple):
        derived = RowSort.derived(tup.row)
    else:
        derived = z3.BoolVal(isinstance(tup, MarkedTuple))
    return RowSort.row(z3.BoolVal(True), to_real(scale), *[to_real(x) for x in dim.vec],
                       to_z3(dim.ref), to_real(offset), to_z3(tex),
                       to_z3(pref) if is_bool(pref) else _truthy(it, pref), derived)


def _truthy(it, v):
    t = it.truth_term(v)
    return to_z3(t)


def deleted_row(r):
    """same payload, present = False (the payload of an absent row is never read)"""
    return RowSort.row(z3.BoolVal(False), RowSort.scale(r),
                       *[getattr(RowSort, "d%d" % i)(r) for i in range(NDIM)],
                       RowSort.dref(r), RowSort.offset(r), RowSort.tex(r),
                       RowSort.prefixable(r), RowSort.derived(r))


ABSENT = None


def absent_row():
    global ABSENT
    if ABSENT is None:
        ABSENT = z3.Const("ABSENT_ROW", RowSort)
    return ABSENT


class SLut(SV):
    """a unit symbol table  str -> (scale, dimensions, offset, tex, prefixable)"""

    def __init__(self, term, label="lut"):
        self.term = term
        self.label = label

    def __repr__(self):
        return "<lut %s>" % self.label

    def sv_pyclass(self):
        return "dict"

    @staticmethod
    def fresh(it, label="lut"):
        return SLut(z3.Const(it.ctx.fresh_name(label), LutSort), label)

    def row(self, key):
        return z3.Select(self.term, to_z3(key))

    def has(self, key):
        return RowSort.present(self.row(key))

    def sv_contains(self, it, item):
        if not is_str(item):
            if isinstance(item, SV):
                raise Unsupported("non-string key in unit table")
            return False
        return self.has(item)

    def sv_getitem(self, it, key):
        if not is_str(key):
            raise Unsupported("non-string key in unit table")
        if not it.branch(self.has(key)):
            it.raise_("KeyError")
        return row_tuple(self.row(key))

    def sv_setitem(self, it, key, value):
        if not is_str(key):
            raise Unsupported("non-string key in unit table")
        it.ctx.events.append(("store", self.label, key))
        self.term = z3.Store(self.term, to_z3(key), make_row(it, value))

    def sv_delitem(self, it, key):
        if not it.branch(self.has(key)):
            it.raise_("KeyError")
        it.ctx.events.append(("store", self.label, key))
        r = self.row(key)
        # a deleted row: same payload, present = False (payload is never read when absent)
        self.term = z3.Store(self.term, to_z3(key), deleted_row(r))

    def guarded_delete(self, it, guard, key):
        """`if guard: del table[key]` without forking (guard implies the key is present)"""
        r = self.row(key)
        it.ctx.events.append(("store", self.label, key))
        self.term = z3.If(guard, z3.Store(self.term, to_z3(key), deleted_row(r)), self.term)

    def sv_getattr(self, it, name):
        if name == "get":
            def get(it_, key, default=None):
                if not is_str(key):
                    raise Unsupported("non-string key")
                if default is None:
                    # no fork: an optional row (None when absent)
                    return OptRow(self.row(key))
                if it_.branch(self.has(key)):
                    return row_tuple(self.row(key))
                return default
            return Intrinsic("dict.get", get)
        if name == "copy":
            return Intrinsic("dict.copy", lambda it_: SLut(self.term, self.label + "_copy"))
        if name == "keys":
            return Intrinsic("dict.keys", lambda it_: self)
        if name == "update":
            def update(it_, other):
                # table.update(<dict with concrete keys>): every key of the other dict now holds that dict's
                # row (an explicit row whose content is not modelled), every other key is untouched; stated at
                # the key the contracts' full-view postconditions speak about
                if isinstance(other, SLut):
                    # table.update(<another table>): the other table's rows win
                    new = SLut.fresh(it_, self.label + "_updated")
                    for k in (z3.String("arbitrary_key"),):
                        o = z3.Select(other.term, k)
                        it_.assume(z3.Select(new.term, k) == z3.If(RowSort.present(o), o, z3.Select(self.term, k)))
                    self.term = new.term
                    return None
                if not isinstance(other, dict) or not all(isinstance(k_, str) for k_ in other):
                    raise Unsupported("table.update(%r)" % (type(other).__name__,))
                new = SLut.fresh(it_, self.label + "_updated")
                rows = z3.Function("row_of_updating_dict", z3.StringSort(), RowSort)
                for k in (z3.String("arbitrary_key"),):
                    inside = z3.Or(*[k == z3.StringVal(k_) for k_ in other]) if other else z3.BoolVal(False)
                    it_.assume(z3.Select(new.term, k) == z3.If(inside, rows(k), z3.Select(self.term, k)))
                    it_.assume(z3.And(RowSort.present(rows(k)), z3.Not(RowSort.derived(rows(k)))))
                self.term = new.term
                return None
            return Intrinsic("dict.update", update)
        raise Unsupported("dict method %s on unit table" % name)

    def sv_truth(self, it):
        # a dict is falsy exactly when it is empty; emptiness is instantiated at the key the
        # contracts' full-view postconditions speak about
        if getattr(self, "known_nonempty", False):
            return True                      # stated by the contract that made this table (a precondition)
        b = it.fresh_bool("table_nonempty")
        it.assume(z3.Implies(z3.Not(b), z3.Not(RowSort.present(z3.Select(self.term, z3.String("arbitrary_key"))))))
        return b


class OptRow(SV):
    """result of table.get(key): the row, or None when the key is absent"""

    def __init__(self, row):
        self.row = row

    def sv_is_none(self, it):
        return it.branch(z3.Not(RowSort.present(self.row)))

    def sv_truth(self, it):
        return RowSort.present(self.row)      # a present row is a non-empty tuple

    def concrete(self, it):
        if it.branch(RowSort.present(self.row)):
            return row_tuple(self.row)
        return None

    def sv_getitem(self, it, key):
        v = self.concrete(it)
        if v is None:
            raise PyRaise("TypeError")
        return it.getitem(v, key)

    def sv_compare(self, it, op, other, reflected):
        # tuple equality: a generated row (_DerivedEntry, a tuple subclass) equals a plain tuple
        # with the same fields; None equals only None
        if op not in ("==", "!="):
            return NotImplemented
        if other is None:
            e = z3.Not(RowSort.present(self.row))
        elif isinstance(other, OptRow):
            raise Unsupported("comparison of two table reads")
        elif isinstance(other, tuple):
            if len(other) != 5:
                e = z3.BoolVal(False)
            else:
                mine = row_tuple(self.row)
                e = RowSort.present(self.row)
                for x, y in zip(mine, other):
                    c = it.compare("==", x, y, identity_first=True)
                    e = z3.And(e, to_z3(c) if not isinstance(c, bool) else z3.BoolVal(c))
        else:
            raise Unsupported("comparison of a table row with %r" % (other,))
        e = z3.simplify(e)
        return e if op == "==" else z3.Not(e)


class SCache(SV):
    """registry._unit_object_cache: str -> Unit; modelled as key set + uninterpreted payload.
    Reads of cached objects return a fresh Unit constrained by the ghost invariant supplied
    by the contract that created the cache (see contracts/registry.py)."""

    def __init__(self, keys_term, label="cache"):
        self.keys = keys_term              # Array String -> Bool
        self.label = label
        self.reader = None                 # callable(it, key) -> Unit SObj

    def __repr__(self):
        return "<cache %s>" % self.label

    def sv_pyclass(self):
        return "dict"

    @staticmethod
    def fresh(it, label="cache"):
        return SCache(z3.Const(it.ctx.fresh_name(label),
                               z3.ArraySort(z3.StringSort(), z3.BoolSort())), label)

    def sv_contains(self, it, item):
        if not is_str(item):
            return False
        return z3.Select(self.keys, to_z3(item))

    def sv_getitem(self, it, key):
        if not it.branch(z3.Select(self.keys, to_z3(key))):
            it.raise_("KeyError")
        if self.reader is None:
            raise Unsupported("read of cached Unit without a cache invariant")
        return self.reader(it, key)

    def sv_setitem(self, it, key, value):
        it.ctx.events.append(("cache-store", self.label, key, value))
        self.keys = z3.Store(self.keys, to_z3(key), z3.BoolVal(True))

    def sv_delitem(self, it, key):
        if not it.branch(z3.Select(self.keys, to_z3(key))):
            it.raise_("KeyError")
        it.ctx.events.append(("cache-del", self.label, key))
        self.keys = z3.Store(self.keys, to_z3(key), z3.BoolVal(False))

    def sv_getattr(self, it, name):
        if name == "clear":
            def clear(it_):
                it_.ctx.events.append(("cache-clear", self.label))
                self.keys = z3.K(z3.StringSort(), z3.BoolVal(False))
            return Intrinsic("dict.clear", clear)
        raise Unsupported("dict method %s on the unit cache" % name)

    def sv_truth(self, it):
        # a dict is falsy exactly when it is empty; emptiness is instantiated at the key the contracts'
        # full-view postconditions speak about (an empty memo does not hold the arbitrary key)
        if z3.is_false(z3.simplify(z3.Select(self.keys, z3.String("arbitrary_key")))) and \
                z3.is_K(self.keys):
            return False
        b = it.fresh_bool("memo_nonempty")
        it.assume(z3.Implies(z3.Not(b), z3.Not(z3.Select(self.keys, z3.String("arbitrary_key")))))
        return b


# ------------------------------------------------------------------------------ spec functions
rpow = z3.Function("rpow", z3.RealSort(), z3.RealSort(), z3.RealSort())
assumed("rpow", "x**p for non-integer or symbolic p is the uninterpreted function rpow(x,p); "
        "only congruence is known unless a lemma states more")

# prefix split of a unit string against a table, as a pair of spec functions; defined by the
# proved contract of unyt.unit_systems._split_prefix
pfx_of = z3.Function("pfx_of", z3.StringSort(), LutSort, z3.StringSort())


# ------------------------------------------------------------------------------ the domain
class UnytDomain:
    def __init__(self, repo):
        self.repo = repo
        self.inline = set(DEFAULT_INLINE)
        self._prefix_table = None

    # hooks -----------------------------------------------------------------------------
    def begin_path(self, it):
        for c in singleton_axioms():
            it.assume(c)

    def may_inline(self, it, fi):
        if fi.qualname in self.inline:
            return True
        # private helpers of the package without a contract are executed as part of their
        # caller (so extracting a helper is a harmless refactoring for the proofs); anything in
        # them outside the modelled subset still makes the path undecided
        name = fi.qualname.rsplit(".", 1)[-1]
        return name.startswith("_") and not name.startswith("__")

    # ---- names ---------------------------------------------------------------------------
    def global_override(self, it, modname, name):
        fq = modname + "." + name
        if modname in MODULE_ATTR_HOOKS:
            return MODULE_ATTR_HOOKS[modname](it, name)
        if fq in GLOBAL_HOOKS:
            return GLOBAL_HOOKS[fq](it)
        if modname == "unyt.dimensions":
            if name in BASE_DIMS:
                return SDim.base(name)
            if name == "dimensionless":
                return SDim.one()
        if name == "sympy_one" and modname == "unyt.unit_object":
            return SDim.one()
        if fq in ("unyt.unit_registry.default_unit_registry",):
            return self.default_registry(it)
        if fq == "unyt.unit_object.NULL_UNIT" or fq == "unyt.array.NULL_UNIT":
            return self.null_unit(it)
        if fq == "unyt._unit_lookup_table.default_unit_symbol_lut":
            return self.default_lut(it)
        if name == "NUMPY_VERSION":
            return SNewVersion()
        if fq == "unyt.array._COPY_IF_NEEDED":
            return None          # assumed: NumPy >= 2 (the installed one); see ASSUMED['numpy2']
        if fq in ("unyt.array.delta_degC", "unyt.array.delta_degF",
                  "unyt._array_functions.delta_degC"):
            return self.named_unit(it, name)
        return MISSING

    def external(self, it, fq):
        if fq in EXTERNAL_VALUES:
            return EXTERNAL_VALUES[fq](it)
        return ExternalRef(fq)

    def external_attr(self, it, ref, name):
        return self.external(it, ref.name + "." + name)

    def builtin(self, it, name):
        f = BUILTINS.get(name)
        if f is not None:
            return Intrinsic(name, f)
        if name in ("True", "False", "None"):
            return {"True": True, "False": False, "None": None}[name]
        if name in ("str", "bytes", "float", "int", "list", "tuple", "dict", "bool", "type"):
            return Intrinsic(name, BUILTINS[name])
        return MISSING

    def call_external(self, it, ref, args, kwargs):
        f = EXTERNAL_CALLS.get(ref.name)
        if f is None:
            raise Unsupported("call of external %s (no assumed contract)" % ref.name)
        return f(it, *args, **kwargs)

    # ---- objects -------------------------------------------------------------------------
    def obj_getattr(self, it, obj, name):
        h = OBJ_ATTR.get((obj.cls.name, name))
        if h is not None:
            return h(it, obj)
        for c in it.repo.mro(obj.cls)[1:]:
            h = OBJ_ATTR.get((c.name, name))
            if h is not None:
                return h(it, obj)
        return MISSING

    def obj_setattr(self, it, obj, name, value):
        it.ctx.events.append(("setattr", obj, name, value))
        if obj.cls.name == "Unit" and name == "expr" and isinstance(value, SDim) \
                and not is_z3(value.ref) and value.ref == REF_ONE:
            obj.fields["expr"] = SExpr(E_ONE)      # sympy's S.One used as a unit expression
            return True
        if name == "_unit_object_cache" and isinstance(value, dict) and not value \
                and obj.cls.name.endswith("UnitRegistry"):
            # a registry's fresh memo: the empty key set (later stores have symbolic string keys); Units
            # memoised by a registry are bound to it (Unit.__new__ string path, contracts/parsing.py)
            c = SCache(z3.K(z3.StringSort(), z3.BoolVal(False)), "fresh_memo")
            c.reader = lambda it_, key, _reg=obj: make_unit(it_, "memoised", registry=_reg)
            obj.fields[name] = c
            return True
        return False

    def obj_binop(self, it, obj, op, other, reflected):
        return NotImplemented

    def obj_compare(self, it, obj, op, other, reflected):
        return NotImplemented

    def obj_str(self, it, obj, kind):
        return MISSING

    def obj_truth(self, it, obj):
        return MISSING

    def fresh_like(self, it, v, label):
        """an arbitrary value of the same kind as v (an argument of an earlier call of the same function)"""
        from pyvc import np_domain as N
        if v is None or isinstance(v, (bool, int, float, Fraction, str)):
            return v                       # concrete values: only earlier calls with the same ones are considered
        if isinstance(v, SObj) and v.cls.name == "Unit":
            return make_unit(it, label)
        if N.is_unyt_array(v):
            return N.make_unyt_array(it, label, cls=v.cls.name)
        if isinstance(v, N.SNd):
            return N.make_ndarray(it, label)
        if is_z3(v):
            if z3.is_int(v):
                return it.fresh_int(label)
            if z3.is_real(v):
                return it.fresh_real(label)
            if z3.is_bool(v):
                return it.fresh_bool(label)
            if z3.is_string(v):
                return it.fresh_str(label)
        if isinstance(v, (tuple, list)) and not v:
            return v
        if isinstance(v, SLut):
            return SLut.fresh(it, label)          # another registry's table
        raise Unsupported("an arbitrary earlier argument like %r" % (v,))

    def memo_result(self, it, fi, r, bound):
        """a memoised function may hand out the object computed for an earlier, *equal* key
        (functools.lru_cache keyed by __eq__/__hash__): an argument object returned as (part of)
        the result is therefore either that very object (miss) or an equal copy of it (hit).
        Both are explored, so nothing verified depends on the identity of a memoised result."""
        parts = list(r) if isinstance(r, tuple) else [r]
        args = [v for v in bound.values() if isinstance(v, SObj)]
        idx = [i for i, x in enumerate(parts) if isinstance(x, SObj) and any(x is a for a in args)]
        if not idx:
            return r
        if it.branch(it.fresh_bool("memo_hit_" + fi.qualname.split(".")[-1])):
            for i in idx:
                x = parts[i]
                parts[i] = SObj(x.cls, dict(x.fields), label=x.label + "_memo")
            return tuple(parts) if isinstance(r, tuple) else parts[0]
        return r

    def identity(self, it, a, b):
        if isinstance(a, SDim) and isinstance(b, SDim):
            if a is b:
                return True
            ra, rb = a.ref, b.ref
            if not is_z3(ra) and not is_z3(rb):
                return ra == rb
            return to_z3(ra) == to_z3(rb)
        if isinstance(a, SExpr) and isinstance(b, SDim):
            a, b = b, a
        if isinstance(a, SDim) and isinstance(b, SExpr):
            # `unit_expr is sympy_one`
            if a.ref == REF_ONE:
                return b.is_one
            return False
        if isinstance(a, SExpr) and isinstance(b, SExpr):
            return a.term == b.term
        return MISSING

    def construct(self, it, ci, args, kwargs):
        """ClassName(...) for a class of the package"""
        if "tuple" in ci.bases and len(args) == 1 and isinstance(args[0], tuple) and not kwargs \
                and it.repo.find_method(ci, "__new__") is None and it.repo.find_method(ci, "__init__") is None:
            # a plain tuple subclass used as a marker (e.g. _DerivedEntry): behaves as its tuple;
            # the marker itself is ghost state (which rows were generated) recorded as an event
            it.ctx.events.append(("marked-tuple", ci.name, args[0]))
            m = MarkedTuple(args[0])
            m.mark = ci.name
            return m
        new = it.repo.find_method(ci, "__new__")
        init = it.repo.find_method(ci, "__init__")
        if new is not None:
            obj = it.call_funcinfo(new, [ClassRef(ci)] + args, kwargs)
            return obj
        obj = SObj(ci)
        if init is not None:
            it.call_funcinfo(init, [obj] + args, kwargs)
        return obj

    def make_super(self, it, frame):
        cls = frame.lookup("__class__")
        if cls is MISSING:
            raise Unsupported("super() outside a method")
        first = None
        if frame.func is not None and frame.func.node.args.args:
            first = frame.locals.get(frame.func.node.args.args[0].arg)
        return SuperProxy(cls.ci, first)

    def inplace_binop(self, it, op, cur, v):
        return MISSING

    def prim_getattr(self, it, o, name):
        if is_str(o):
            return str_method(it, o, name)
        if isinstance(o, (tuple, list)):
            return seq_method(it, o, name)
        if isinstance(o, dict):
            return dict_method(it, o, name)
        if is_floaty(o) and name == "is_integer":
            return Intrinsic("float.is_integer", lambda it_: float_is_integer(it_, o))
        return MISSING

    def prim_binop(self, it, op, a, b):
        if op == "**" and is_num(a) and isinstance(b, SExpr):
            # python float ** sympy expression: a sympy expression again (a Number when the
            # exponent is a Number; possibly complex or non-finite)
            r = SExpr.fresh(it, "powered")
            # assumed sympy fact: positive float ** real finite Number is the Number base**p
            it.assume(z3.Implies(
                z3.And(e_kind(b.term) == K_NUM, to_z3(b.sv_getattr(it, "is_real")),
                       to_z3(b.sv_getattr(it, "is_finite")), to_real(a) > 0),
                z3.And(e_kind(r.term) == K_NUM, e_numval(r.term) == rpow(to_real(a), e_numval(b.term)),
                       e_numval(r.term) > 0)))
            return r
        return MISSING

    def str_getitem(self, it, s, k):
        if isinstance(s, str) and (isinstance(k, int) or isinstance(k, slice)):
            try:
                return s[k]
            except IndexError:
                it.raise_("IndexError")
        zs = to_z3(s)
        if isinstance(k, slice) or hasattr(k, "lo"):
            lo = getattr(k, "start", getattr(k, "lo", None))
            hi = getattr(k, "stop", getattr(k, "hi", None))
            st = getattr(k, "step", getattr(k, "st", None))
            if st is not None:
                raise Unsupported("string slice step")
            n = z3.Length(zs)
            lo = 0 if lo is None else lo
            if is_z3(lo) or is_z3(hi):
                # symbolic bounds: Python's clamping of (possibly negative) indices, as terms
                def clamp(b, default):
                    if b is None:
                        return default
                    t = to_z3(b) if not isinstance(b, int) else z3.IntVal(b)
                    t = z3.If(t < 0, z3.If(n + t < 0, z3.IntVal(0), n + t), z3.If(t > n, n, t))
                    return t
                lo_t, hi_t = clamp(lo, z3.IntVal(0)), clamp(hi, n)
                ln = z3.If(hi_t - lo_t < 0, z3.IntVal(0), hi_t - lo_t)
                return z3.SubString(zs, lo_t, ln)
            if lo < 0:
                lo_t = z3.If(n + lo < 0, z3.IntVal(0), n + lo)
            else:
                lo_t = z3.IntVal(lo)
            if hi is None:
                hi_t = n
            elif hi < 0:
                hi_t = z3.If(n + hi < 0, z3.IntVal(0), n + hi)
            else:
                hi_t = z3.If(n < hi, n, z3.IntVal(hi))
            ln = z3.If(hi_t - lo_t < 0, z3.IntVal(0), hi_t - lo_t)
            return z3.SubString(zs, lo_t, ln)
        if isinstance(k, int):
            n = z3.Length(zs)
            if k >= 0:
                if not it.branch(n > k):
                    it.raise_("IndexError")
                return z3.SubString(zs, z3.IntVal(k), z3.IntVal(1))
            if not it.branch(n >= -k):
                it.raise_("IndexError")
            return z3.SubString(zs, n + k, z3.IntVal(1))
        raise Unsupported("string index %r" % (k,))

    def rpow(self, it, a, b):
        return rpow(to_real(a), to_real(b))

    def num_str(self, it, v):
        return SNumStr(v)

    # ---- canonical objects ---------------------------------------------------------------
    def prefix_table(self, it):
        """unit_prefixes evaluated from the real source (dict literal)"""
        if self._prefix_table is None:
            m = it.repo.modules["unyt._unit_lookup_table"]
            self._prefix_table = it.eval_in_module(m, m.assigns["unit_prefixes"])
        return self._prefix_table

    def default_lut(self, it):
        if not hasattr(it, "_default_lut"):
            it._default_lut = SLut(z3.Const("DEFAULT_LUT", LutSort), "default_unit_symbol_lut")
        return it._default_lut

    def default_registry(self, it):
        if not hasattr(it, "_default_registry"):
            it._default_registry = make_registry(it, "default_registry",
                                                 cls="_NonModifiableUnitRegistry")
        return it._default_registry

    def null_unit(self, it):
        if not hasattr(it, "_null_unit"):
            u = make_unit(it, "NULL_UNIT", registry=self.default_registry(it))
            u.fields["expr"] = SExpr(E_ONE)
            u.fields["base_value"] = Fraction(1)
            u.fields["base_offset"] = Fraction(0)
            u.fields["dimensions"] = SDim.one()
            u.fields["is_atomic"] = False
            it._null_unit = u
        return it._null_unit

    def named_unit(self, it, name):
        key = "_named_unit_" + name
        if not hasattr(it, key):
            u = make_unit(it, name, registry=self.default_registry(it))
            name_expr(it, u.fields["expr"], name)
            if name in ("delta_degC", "delta_degF"):
                u.fields["dimensions"] = SDim.base("temperature")
                u.fields["base_offset"] = Fraction(0)
                u.fields["base_value"] = Fraction(1) if name == "delta_degC" else Fraction(5, 9)
            setattr(it, key, u)
        return getattr(it, key)


# module name -> f(it, attribute): modules whose namespace is filled at import time by code that
# is not executed here (unyt.physical_constants); registered by the contracts that need them
MODULE_ATTR_HOOKS = {}
# fully qualified global name -> f(it): module-level objects built by code that is not executed
# here (a registry filled by a metaclass, ...)
GLOBAL_HOOKS = {}


class SNewVersion(SV):
    """packaging Version of the installed NumPy: assumed newer than every version the code
    compares it with (ASSUMED['numpy2'])"""

    def sv_compare(self, it, op, other, reflected):
        if op in (">=", ">"):
            return True
        if op in ("<", "<=", "=="):
            return False
        return NotImplemented


class SuperProxy(SV):
    def __init__(self, ci, obj):
        self.ci = ci
        self.obj = obj

    def sv_getattr(self, it, name):
        mro = it.repo.mro(self.ci)
        for c in mro[1:]:
            if name in c.methods:
                fi = c.methods[name]
                if name == "__new__":
                    return FuncRef(fi)
                return BoundMethod(self.obj, fi)
        if name == "__new__":
            return Intrinsic("object.__new__", lambda it_, cls, *a, **k: SObj(cls.ci))
        h = SUPER_ATTR.get((self.ci.name, name))
        if h is not None:
            return h(it, self.obj)
        raise Unsupported("super().%s for %s" % (name, self.ci.name))


SUPER_ATTR = {}
OBJ_ATTR = {}
DEFAULT_INLINE = {
    "unyt.array.allclose_units",
    "unyt.unit_object._ImportCache.__init__",
    "unyt.unit_object._ImportCache.ua",
    "unyt.unit_object._ImportCache.uq",
    "unyt.unit_object.Unit.__new__",
    "unyt.unit_object.Unit.__rmul__",
    "unyt.unit_object.Unit.units",
    "unyt.unit_object.Unit.is_dimensionless",
    "unyt.unit_object.Unit.get_conversion_factor",
    "unyt.unit_object.Unit.__hash__",
    "unyt.array._iterable",
    "unyt.array._coerce_iterable_units",
    "unyt.array._get_binary_op_return_class",
    "unyt.array.unyt_array.__new__",
    "unyt.array.unyt_quantity.__new__",
    "unyt.array.unyt_array.d",
    "unyt.array.unyt_array.ndview",
    "unyt.array.unyt_array.ndarray_view",
    "unyt.array.unyt_array.v",
    "unyt.array.unyt_array.value",
    "unyt.array.unyt_array.to_ndarray",
    "unyt.array._passthrough_unit",
    "unyt.array._return_without_unit",
    "unyt.array._arctan2_unit",
    "unyt.array._comparison_unit",
    "unyt.array._invert_units",
    "unyt.array._bitop_units",
}


# ------------------------------------------------------------------------------ factories
def cls_of(it, name):
    ci = it.repo.find_class(name)
    if ci is None:
        raise Unsupported("class %s not found in source" % name)
    return ci


def make_registry(it, label="reg", cls="UnitRegistry", lut=None):
    r = SObj(cls_of(it, cls), label=label)
    r.fields["lut"] = lut or SLut.fresh(it, label + "_lut")
    r.fields["_unit_object_cache"] = SCache.fresh(it, label + "_cache")
    r.fields["_unit_system_id"] = it.fresh_str(label + "_usid")
    r.fields["unit_system"] = Opaque(label + "_unit_system")
    return r


def make_unit(it, label="u", registry=None, canon=True, positive_scale=True):
    u = SObj(cls_of(it, "Unit"), label=label)
    u.fields["expr"] = SExpr.fresh(it, label + "_expr")
    u.fields["base_value"] = z3.Real(it.ctx.fresh_name(label + "_scale"))
    u.fields["base_offset"] = z3.Real(it.ctx.fresh_name(label + "_offset"))
    u.fields["dimensions"] = SDim.fresh(it, label + "_dim", canon=canon)
    u.fields["registry"] = registry if registry is not None else make_registry(it, label + "_reg")
    u.fields["is_atomic"] = z3.Bool(it.ctx.fresh_name(label + "_atomic"))
    u.fields["is_Unit"] = True
    u.fields["_latex_repr"] = Opaque(label + "_latex")
    if positive_scale:
        it.assume(u.fields["base_value"] > 0)
    return u


def track_unit(it, label, u):
    it.ctx.track(label + ".scale", u.fields["base_value"])
    it.ctx.track(label + ".offset", u.fields["base_offset"])
    for n, x in zip(BASE_DIMS, u.fields["dimensions"].vec):
        if is_z3(x):
            it.ctx.track(label + ".dim." + n, x)
    it.ctx.track(label + ".str", expr_str(u.fields["expr"].term))


# ------------------------------------------------------------------------------ builtins
def _isinstance(it, obj, cls):
    classes = cls if isinstance(cls, tuple) else (cls,)
    acc = False
    for c in classes:
        r = _isinstance1(it, obj, c)
        if r is True:
            return True
        if r is False:
            continue
        acc = r if acc is False else z3.Or(acc, r)
    return acc


PRIM_CLASS = {"str": is_str, "float": is_floaty, "bytes": lambda v: False,
              "int": lambda v: (isinstance(v, int) and not isinstance(v, bool)) or (
                  is_z3(v) and z3.is_int(v)),
              "bool": is_bool, "list": lambda v: isinstance(v, list),
              "tuple": lambda v: isinstance(v, tuple), "dict": lambda v: isinstance(v, (dict, SLut))}


def _isinstance1(it, obj, c):
    if isinstance(c, Intrinsic) and c.name in PRIM_CLASS:
        return bool(PRIM_CLASS[c.name](obj))
    if isinstance(c, ClassRef):
        if isinstance(obj, SObj):
            return any(k.qualname == c.ci.qualname for k in it.repo.mro(obj.cls))
        if "tuple" in c.ci.bases:                       # marker classes (_DerivedEntry)
            if isinstance(obj, OptRow):
                return z3.And(RowSort.present(obj.row), RowSort.derived(obj.row))
            if isinstance(obj, RowTuple):
                return RowSort.derived(obj.row)
            if isinstance(obj, MarkedTuple):
                return obj.mark == c.ci.name
        return False
    if isinstance(c, ExcClassRef):
        return isinstance(obj, SExc) and it.repo.exc_issubclass(obj.name, c.name)
    if isinstance(c, ExternalRef):
        h = EXTERNAL_ISINSTANCE.get(c.name)
        if h is None:
            raise Unsupported("isinstance against external %s" % c.name)
        return h(it, obj)
    raise Unsupported("isinstance against %r" % (c,))


def _sympy_kind(k):
    def h(it, obj):
        if isinstance(obj, SExpr):
            return e_kind(obj.term) == k
        if isinstance(obj, SDim):
            if not is_z3(obj.ref) and obj.ref == REF_ONE:
                return k == K_NUM             # S.One is a Number, not Symbol/Pow/Mul
            if not is_z3(obj.ref) and obj.ref in REF_BASE.values():
                return k == K_SYM
            raise Unsupported("structural isinstance on a dimension")
        return False
    return h


def _sympy_number(it, obj):
    if isinstance(obj, SExpr):
        if obj.term.eq(E_ONE):
            return True
        return e_kind(obj.term) == K_NUM
    if isinstance(obj, SRat):
        return True
    if isinstance(obj, SDim):
        return _b(obj.is_one())
    return False


EXTERNAL_ISINSTANCE = {
    "sympy.Expr": lambda it, o: isinstance(o, (SExpr, SDim, SRat)),
    "sympy.core.expr.Expr": lambda it, o: isinstance(o, (SExpr, SDim, SRat)),
    "sympy.Basic": lambda it, o: isinstance(o, (SExpr, SDim, SRat)),
    "sympy.Symbol": _sympy_kind(K_SYM),
    "sympy.Pow": _sympy_kind(K_POW),
    "sympy.Mul": _sympy_kind(K_MUL),
    "sympy.Number": _sympy_number,
    "numbers.Number": lambda it, o: is_num(o) or isinstance(o, bool),
}


def _getattr(it, obj, name, *default):
    if not isinstance(name, str):
        raise Unsupported("getattr with symbolic name")
    try:
        return it.getattr(obj, name)
    except PyRaise as e:
        if e.exc == "AttributeError" and default:
            return default[0]
        raise


def _hasattr(it, obj, name):
    try:
        it.getattr(obj, name)
        return True
    except PyRaise as e:
        if e.exc == "AttributeError":
            return False
        raise


def _float(it, x=0):
    x = const_float(x)
    if isinstance(x, bool):
        return Fraction(int(x))
    if isinstance(x, int):
        return Fraction(x)
    if isinstance(x, Fraction):
        return x
    if is_z3(x) and z3.is_arith(x):
        return to_real(x)
    if isinstance(x, SRat):
        return _float(it, x.value)
    if isinstance(x, SV):
        h = getattr(x, "sv_float", None)
        if h is not None:
            return h(it)
    if is_str(x):
        raise Unsupported("float(str)")
    raise PyRaise("TypeError")


def _int(it, x=0, *a):
    if isinstance(x, bool):
        return int(x)
    if isinstance(x, int):
        return x
    if isinstance(x, Fraction):
        return int(x)
    raise Unsupported("int(%r)" % (x,))


def _str(it, x=""):
    return it.to_str(x, "str")


def _repr(it, x):
    return it.to_str(x, "repr")


def _len(it, x):
    return it.length(x)


def _any(it, xs):
    for x in it.iterate(xs):
        if it.truth(x):
            return True
    return False


def _all(it, xs):
    for x in it.iterate(xs):
        if not it.truth(x):
            return False
    return True


def _type(it, x):
    if isinstance(x, SObj):
        return ClassRef(x.cls)
    h = getattr(x, "sv_type", None)
    if h is not None:
        return h(it)
    x = const_float(x)
    if isinstance(x, bool):
        return ExternalRef("builtins.bool")
    if is_floaty(x):
        return ExternalRef("builtins.float")
    if is_num(x):
        return ExternalRef("builtins.int")
    if is_str(x):
        return ExternalRef("builtins.str")
    if isinstance(x, list):
        return ExternalRef("builtins.list")
    if isinstance(x, tuple):
        return ExternalRef("builtins.tuple")
    return Opaque("type")


def _callable(it, x):
    return isinstance(x, (FuncRef, Closure, BoundMethod, Intrinsic, ClassRef, ExcClassRef))


def _max(it, *xs):
    if len(xs) == 1:
        xs = it.iterate(xs[0])
    r = xs[0]
    for x in xs[1:]:
        c = it.compare(">", x, r)
        if isinstance(c, bool):
            r = x if c else r
        else:
            r = z3.If(c, to_z3(x), to_z3(r))
    return r


def _min(it, *xs):
    if len(xs) == 1:
        xs = it.iterate(xs[0])
    r = xs[0]
    for x in xs[1:]:
        c = it.compare("<", x, r)
        if isinstance(c, bool):
            r = x if c else r
        else:
            r = z3.If(c, to_z3(x), to_z3(r))
    return r


def _abs(it, x):
    if is_z3(x):
        return z3.If(x >= 0, x, -x)
    if isinstance(x, SV):
        raise Unsupported("abs of %r" % x)
    return abs(x)


def _tuple(it, x=()):
    return tuple(it.iterate(x))


def _list(it, x=()):
    return list(it.iterate(x))


def _dict(it, x=None, **kw):
    d = {}
    if isinstance(x, SLut) and not kw:
        return SLut(x.term, x.label + "_dictcopy")        # dict(table): a new table object, same rows
    if x is not None:
        if isinstance(x, dict):
            d.update(x)
        else:
            for k, v in it.iterate(x):
                d[k] = v
    d.update(kw)
    return d


def _zip(it, *xs):
    return list(zip(*[it.iterate(x) for x in xs]))


def _enumerate(it, xs, start=0):
    return list(enumerate(it.iterate(xs), start))


def _range(it, *a):
    if any(is_z3(x) for x in a):
        raise Unsupported("symbolic range")
    return list(range(*a))


def _sorted(it, xs, **kw):
    xs = it.iterate(xs)
    if kw:
        raise Unsupported("sorted with key")
    try:
        return sorted(xs)
    except TypeError:
        raise Unsupported("sorted over symbolic values")


def _bool(it, x=False):
    return it.truth_term(x)


def _setattr(it, o, n, v):
    it.setattr(o, n, v)


def _issubclass(it, c, bases):
    bases = bases if isinstance(bases, tuple) else (bases,)
    if isinstance(c, ClassRef):
        for b in bases:
            if isinstance(b, ClassRef) and any(k.qualname == b.ci.qualname
                                               for k in it.repo.mro(c.ci)):
                return True
            if isinstance(b, ExternalRef) and b.name == "numpy.ndarray" and any(
                    "ndarray" in base for k in it.repo.mro(c.ci) for base in k.bases):
                return True
        return False
    if isinstance(c, ExcClassRef):
        return any(isinstance(b, ExcClassRef) and it.repo.exc_issubclass(c.name, b.name)
                   for b in bases)
    if isinstance(c, ExternalRef):
        sup = EXTERNAL_SUPERS.get(c.name)
        if sup is None:
            raise Unsupported("issubclass(%r)" % (c,))
        for b in bases:
            n = b.name if isinstance(b, (ExternalRef, Intrinsic)) else None
            if n is not None and (n.split(".")[-1] in sup or n in sup):
                return True
        return False
    raise Unsupported("issubclass(%r)" % (c,))


# python classes of primitive values and their (relevant) superclasses
EXTERNAL_SUPERS = {
    "builtins.float": {"float", "numbers.Number", "Number"},
    "builtins.int": {"int", "numbers.Number", "Number"},
    "builtins.bool": {"bool", "int", "numbers.Number", "Number"},
    "builtins.str": {"str"},
    "builtins.list": {"list"},
    "builtins.tuple": {"tuple"},
    "numpy.ndarray": {"numpy.ndarray", "ndarray"},
}


def _round(it, x, n=None):
    raise Unsupported("round")


def _hash(it, x):
    if isinstance(x, SExpr):
        return z3.Function("hash_expr", ExprSort, z3.IntSort())(x.term)
    raise Unsupported("hash(%r)" % (x,))


def _sum(it, xs, start=0):
    r = start
    for x in it.iterate(xs):
        r = it.binop("+", r, x)
    return r


class SIter(SV):
    """iter() of a concrete sequence: a position in it"""

    def __init__(self, items):
        self.items = list(items)
        self.pos = 0


def _iter(it, xs):
    if isinstance(xs, SIter):
        return xs
    if not isinstance(xs, (list, tuple)):
        raise Unsupported("iter(%r)" % (xs,))
    return SIter(xs)


_NO_DEFAULT = object()


def _next(it, i, default=_NO_DEFAULT):
    if not isinstance(i, SIter):
        raise Unsupported("next(%r)" % (i,))
    if i.pos < len(i.items):
        i.pos += 1
        return i.items[i.pos - 1]
    if default is _NO_DEFAULT:
        it.raise_("StopIteration")
    return default


BUILTINS = {
    "iter": _iter, "next": _next,
    "isinstance": _isinstance, "getattr": _getattr, "hasattr": _hasattr, "float": _float,
    "int": _int, "str": _str, "repr": _repr, "len": _len, "any": _any, "all": _all,
    "type": _type, "callable": _callable, "max": _max, "min": _min, "abs": _abs,
    "tuple": _tuple, "list": _list, "dict": _dict, "zip": _zip, "enumerate": _enumerate,
    "range": _range, "sorted": _sorted, "bool": _bool, "setattr": _setattr,
    "issubclass": _issubclass, "round": _round, "hash": _hash, "sum": _sum,
    "bytes": lambda it, *a: (_ for _ in ()).throw(Unsupported("bytes()")),
    "print": lambda it, *a, **k: None,
    "set": lambda it, x=(): tuple(dict.fromkeys(it.iterate(x))),
}


# ------------------------------------------------------------------------------ str / seq methods
def str_method(it, s, name):
    conc = isinstance(s, str)
    zs = to_z3(s)

    def startswith(it_, p):
        if isinstance(p, tuple):
            return z3.Or(*[to_z3(startswith(it_, x)) for x in p])
        if conc and isinstance(p, str):
            return s.startswith(p)
        return z3.PrefixOf(to_z3(p), zs)

    def endswith(it_, p):
        if conc and isinstance(p, str):
            return s.endswith(p)
        return z3.SuffixOf(to_z3(p), zs)

    def replace(it_, a, b):
        if conc and isinstance(a, str) and isinstance(b, str):
            return s.replace(a, b)
        # z3's str.replace replaces the first occurrence only; Python replaces all. The
        # result is therefore left abstract (only used for LaTeX / message text here).
        return it_.fresh_str("replaced")

    def encode(it_, *a):
        return Opaque("bytes")

    def strip(it_, *a):
        if conc:
            return s.strip(*a)
        return it_.fresh_str("stripped")

    table = {"startswith": startswith, "endswith": endswith, "replace": replace,
             "encode": encode, "strip": strip}
    if name in table:
        return Intrinsic("str." + name, table[name])
    if conc and name in ("title", "lower", "upper", "islower", "isupper", "split", "join"):
        def generic(it_, *a, _n=name):
            if any(is_z3(x) for x in a):
                raise Unsupported("str.%s with symbolic args" % _n)
            return getattr(s, _n)(*a)
        return Intrinsic("str." + name, generic)
    return MISSING


def seq_method(it, o, name):
    if isinstance(o, list):
        if name == "append":
            return Intrinsic("list.append", lambda it_, x: o.append(x))
        if name == "extend":
            return Intrinsic("list.extend", lambda it_, xs: o.extend(it_.iterate(xs)))
        if name == "pop":
            def pop(it_, *a):
                if not o:
                    it_.raise_("IndexError")
                return o.pop(*a)
            return Intrinsic("list.pop", pop)
        if name == "copy":
            return Intrinsic("list.copy", lambda it_: list(o))
    if name == "index":
        def index(it_, x):
            for i, y in enumerate(o):
                if it_.truth(it_.compare("==", x, y, identity_first=True)):
                    return i
            it_.raise_("ValueError")
        return Intrinsic("seq.index", index)
    return MISSING


def dict_method(it, d, name):
    if name == "get":
        def get(it_, k, default=None):
            if is_z3(k):
                for kk, v in d.items():
                    e = it_.compare("==", k, kk)
                    if it_.truth(e):
                        return v
                return default
            return d.get(k, default)
        return Intrinsic("dict.get", get)
    if name == "items":
        return Intrinsic("dict.items", lambda it_: list(d.items()))
    if name == "keys":
        return Intrinsic("dict.keys", lambda it_: list(d.keys()))
    if name == "values":
        return Intrinsic("dict.values", lambda it_: list(d.values()))
    if name == "pop":
        def pop(it_, k, *default):
            if k in d:
                return d.pop(k)
            if default:
                return default[0]
            it_.raise_("KeyError")
        return Intrinsic("dict.pop", pop)
    if name == "copy":
        return Intrinsic("dict.copy", lambda it_: dict(d))
    if name == "update":
        def update(it_, other=None, **kw):
            if other is not None:
                if isinstance(other, SCache):
                    # every memoised entry of `other` is copied: the dict now holds whatever that memo
                    # held (kept as one opaque bulk entry; the dict is empty only if the memo was)
                    d[("<entries copied from>", other.label)] = other
                    return None
                if not isinstance(other, dict):
                    raise Unsupported("dict.update with %r" % (other,))
                d.update(other)
            d.update(kw)
        return Intrinsic("dict.update", update)
    if name == "setdefault":
        return Intrinsic("dict.setdefault", lambda it_, k, v=None: d.setdefault(k, v))
    return MISSING


def float_is_integer(it, x):
    if isinstance(x, Fraction):
        return x.denominator == 1
    return z3.IsInt(x)


# ------------------------------------------------------------------------------ externals
def _ordered_dict(it, items=()):
    d = {}
    for kv in it.iterate(items):
        k, v = it.iterate(kv)
        d[k] = v
    return d


def _sympify(it, x, **kw):
    x = const_float(x)
    if is_num(x) and not is_z3(x) and x == 1:
        return SDim.one()
    raise Unsupported("sympify(%r)" % (x,))


def _math_isclose(it, a, b, rel_tol=Fraction(1, 10 ** 9), abs_tol=0):
    """math.isclose as the real relation |a-b| <= max(rel_tol*max(|a|,|b|), abs_tol)"""
    a, b = const_float(a), const_float(b)
    if not is_z3(a) and not is_z3(b):
        d = abs(a - b)
        return d <= max(rel_tol * max(abs(a), abs(b)), abs_tol)
    za, zb = to_real(a), to_real(b)
    aa = z3.If(za >= 0, za, -za)
    ab = z3.If(zb >= 0, zb, -zb)
    d = z3.If(za - zb >= 0, za - zb, zb - za)
    mx = z3.If(aa >= ab, aa, ab)
    rt = to_real(rel_tol) * mx
    at = to_real(abs_tol)
    return d <= z3.If(rt >= at, rt, at)


assumed("math.isclose", "math.isclose(a,b) is the real relation |a-b| <= max(1e-9*max(|a|,|b|), 0)")


def _Rational(it, *a):
    if len(a) == 2 and all(isinstance(x, int) for x in a):
        return Fraction(a[0], a[1])
    if len(a) == 1:
        x = a[0]
        if isinstance(x, SNumStr):
            return RationalOfStr(x.p)
        if is_str(x) or isinstance(x, SV):
            # Rational(str(obj)) of a non-number: sympy raises TypeError or ValueError
            it.raise_("ValueError" if it.branch(it.fresh_bool("rational_valueerror")) else "TypeError")
        if isinstance(x, (int, Fraction)):
            return SRat(Fraction(x))
    raise Unsupported("Rational(%r)" % (a,))


class RationalOfStr(SV):
    """Rational(str(p)) before limit_denominator()"""

    def __init__(self, p):
        self.p = p

    def sv_getattr(self, it, name):
        if name == "limit_denominator":
            return Intrinsic("limit_denominator", lambda it_: SRat(self.p))
        raise Unsupported("Rational.%s" % name)


assumed("Rational(str(p)).limit_denominator()", "denotes the number p exactly for numeric p "
        "(conformance-tested for the exponent set in the bounded layer); raises "
        "TypeError/ValueError for non-numeric p")

EXTERNAL_VALUES = {
    "numpy.pi": lambda it: Opaque("pi"),
    # assumed: optional third-party array libraries (dask) are not imported
    "sys.modules": lambda it: {},
}
assumed("numpy2", "module-level NumPy version switches are resolved for NumPy >= 2 "
        "(_COPY_IF_NEEDED is None; the `if NUMPY_VERSION >= 2` arms are the ones indexed)")
assumed("no-dask", "sys.modules holds none of the optional array libraries (dask): the dask "
        "short-circuit of __array_ufunc__ is outside the model")
def _parse_expr(it, text, **kw):
    """sympy's parser (abstract): for any text it raises some exception, or returns a sympy
    expression, or returns a python object that is no sympy Expr (tuples, numbers, dicts...)"""
    c = it.ctx.choose(3, "parse_expr_outcome")
    if c == 0:
        it.raise_("SyntaxError" if it.branch(it.fresh_bool("syntax_error")) else "ValueError")
    if c == 1:
        return SExpr.fresh(it, "parsed")
    return Opaque("parsed_non_expr")


assumed("sympy-parser", "sympy.parsing.sympy_parser.parse_expr is abstract: it may raise any exception, "
        "return an arbitrary sympy expression, or return an arbitrary non-Expr object")

def _json_loads(it, text, **kw):
    """json.loads of a serialised unit registry: some table (its rows are whatever the text says); the decoded
    object is freshly made"""
    t = SLut.fresh(it, "decoded_json_table")
    t.known_nonempty = True
    it.ctx.events.append(("json-loads", t, t.term))
    return t


assumed("json-loads-table", "json.loads(<registry text>) returns a freshly made, non-empty table whose rows are "
        "whatever the text encodes (decoding itself is not modelled)")

EXTERNAL_CALLS = {
    "json.loads": _json_loads,
    "sympy.parsing.sympy_parser.parse_expr": _parse_expr,
    "packaging.version.Version": lambda it, *a: Opaque("version"),
    "collections.OrderedDict": _ordered_dict,
    "sympy.sympify": _sympify,
    "math.isclose": _math_isclose,
    "sympy.Rational": _Rational,
    "copy.deepcopy": lambda it, x, *a: _deepcopy(it, x),
    "copy.copy": lambda it, x: _copy(it, x),
}


def _deepcopy(it, x):
    if x is None or isinstance(x, (bool, int, Fraction, str)) or is_z3(x):
        return x
    raise Unsupported("deepcopy(%r)" % (x,))


def _copy(it, x):
    raise Unsupported("copy(%r)" % (x,))
