"""pyvc core: path-enumerating symbolic executor for a subset of Python, driven by the
real AST of the code under verification, with modular (contract-based) call handling.

Anything outside the supported subset raises Unsupported -> the path is *undecided*
(never counted as discharged, never reported as a violation).
"""
import ast
import operator
from fractions import Fraction

import z3

from . import smt
from .source import FuncInfo, ClassInfo


# --------------------------------------------------------------------------- signals
class Unsupported(Exception):
    """construct or value outside the modelled subset: path undecided"""


class Infeasible(Exception):
    """path condition became unsatisfiable (assume false)"""


class PathLimit(Exception):
    pass


class PyRaise(Exception):
    """a Python exception raised by the interpreted program"""

    def __init__(self, exc, obj=None, where=None):
        Exception.__init__(self, exc)
        self.exc = exc            # class name (str)
        self.obj = obj            # SExc or None
        self.where = where


class _Return(Exception):
    def __init__(self, value):
        self.value = value


class _Break(Exception):
    pass


class _Continue(Exception):
    pass


MISSING = object()


# --------------------------------------------------------------------------- values
class SV:
    """base of all non-primitive symbolic values; protocol methods default to Unsupported"""

    def sv_getattr(self, it, name):
        raise PyRaise("AttributeError")

    def sv_setattr(self, it, name, value):
        raise Unsupported("setattr %s.%s" % (type(self).__name__, name))

    def sv_call(self, it, args, kwargs):
        raise Unsupported("call of %r" % (self,))

    def sv_binop(self, it, op, other, reflected):
        return NotImplemented

    def sv_compare(self, it, op, other, reflected):
        return NotImplemented

    def sv_truth(self, it):
        return True

    def sv_getitem(self, it, key):
        raise Unsupported("getitem on %r" % (self,))

    def sv_setitem(self, it, key, value):
        raise Unsupported("setitem on %r" % (self,))

    def sv_delitem(self, it, key):
        raise Unsupported("delitem on %r" % (self,))

    def sv_contains(self, it, item):
        raise Unsupported("contains on %r" % (self,))

    def sv_iter(self, it):
        raise Unsupported("iteration over %r" % (self,))

    def sv_len(self, it):
        raise Unsupported("len of %r" % (self,))

    def sv_str(self, it):
        raise Unsupported("str of %r" % (self,))

    def sv_repr(self, it):
        return self.sv_str(it)

    def sv_unary(self, it, op):
        raise Unsupported("unary %s on %r" % (op, self))

    def sv_pyclass(self):
        """name of the Python class this value is an instance of (for isinstance)"""
        return type(self).__name__


# SV classes that stand for Python values rather than for objects with identity
VALUE_LIKE = {"Opaque", "SymSlice", "SParam", "SDtStr", "SNd", "SShape", "SBoolArr", "SNumStr", "SRat",
              "SExpr", "SCoeff", "OptRow", "RationalOfStr"}


class SObj(SV):
    """heap object of a class defined in the package under verification"""
    _ids = 0

    def __init__(self, cls, fields=None, label=None):
        self.cls = cls                    # ClassInfo
        self.fields = dict(fields or {})
        SObj._ids += 1
        self.oid = SObj._ids
        self.label = label or ("%s#%d" % (cls.name if cls else "obj", self.oid))

    def __repr__(self):
        return "<%s>" % self.label

    def sv_pyclass(self):
        return self.cls.name

    def sv_getattr(self, it, name):
        if name in self.fields:
            return self.fields[name]
        v = it.domain.obj_getattr(it, self, name)
        if v is not MISSING:
            return v
        if name == "__class__":
            return ClassRef(self.cls)
        fi = it.repo.find_method(self.cls, name)
        if fi is not None:
            if fi.is_property:
                return it.call_funcinfo(fi, [self], {})
            if fi.is_staticmethod:
                return FuncRef(fi)
            return BoundMethod(self, fi)
        for c in it.repo.mro(self.cls):
            if name in c.class_assigns:
                return it.eval_in_module(c.module, c.class_assigns[name])
        raise PyRaise("AttributeError")

    def sv_setattr(self, it, name, value):
        if it.domain.obj_setattr(it, self, name, value):
            return
        self.fields[name] = value

    def _dunder(self, it, name):
        return it.repo.find_method(self.cls, name)

    def sv_binop(self, it, op, other, reflected):
        r = it.domain.obj_binop(it, self, op, other, reflected)
        if r is not NotImplemented:
            return r
        names = BINOP_DUNDER.get(op)
        if not names:
            return NotImplemented
        fi = self._dunder(it, names[1] if reflected else names[0])
        if fi is None:
            return NotImplemented
        return it.call_funcinfo(fi, [self, other], {})

    def sv_compare(self, it, op, other, reflected):
        r = it.domain.obj_compare(it, self, op, other, reflected)
        if r is not NotImplemented:
            return r
        if op in ("==", "!="):
            fi = self._dunder(it, "__eq__" if op == "==" else "__ne__")
            if fi is None and op == "!=":
                fi = self._dunder(it, "__eq__")
                if fi is not None:
                    return it.not_(it.call_funcinfo(fi, [self, other], {}))
            if fi is not None:
                return it.call_funcinfo(fi, [self, other], {})
            if isinstance(other, SObj):
                return (self is other) if op == "==" else (self is not other)
        return NotImplemented

    def sv_getitem(self, it, key):
        fi = self._dunder(it, "__getitem__")
        if fi is None:
            raise Unsupported("getitem on %r" % self)
        return it.call_funcinfo(fi, [self, key], {})

    def sv_setitem(self, it, key, value):
        fi = self._dunder(it, "__setitem__")
        if fi is None:
            raise Unsupported("setitem on %r" % self)
        return it.call_funcinfo(fi, [self, key, value], {})

    def sv_contains(self, it, item):
        fi = self._dunder(it, "__contains__")
        if fi is None:
            raise Unsupported("contains on %r" % self)
        return it.call_funcinfo(fi, [self, item], {})

    def sv_str(self, it):
        r = it.domain.obj_str(it, self, "str")
        if r is not MISSING:
            return r
        fi = self._dunder(it, "__str__")
        if fi is None:
            raise Unsupported("str of %r" % self)
        return it.call_funcinfo(fi, [self], {})

    def sv_repr(self, it):
        r = it.domain.obj_str(it, self, "repr")
        if r is not MISSING:
            return r
        fi = self._dunder(it, "__repr__")
        if fi is None:
            raise Unsupported("repr of %r" % self)
        return it.call_funcinfo(fi, [self], {})

    def sv_truth(self, it):
        r = it.domain.obj_truth(it, self)
        if r is not MISSING:
            return r
        return True


class SExc(SV):
    def __init__(self, name, args):
        self.name = name
        self.args = args

    def __repr__(self):
        return "<exc %s>" % self.name

    def sv_pyclass(self):
        return self.name

    def sv_getattr(self, it, name):
        if name == "args":
            return tuple(self.args)
        raise PyRaise("AttributeError")

    def sv_str(self, it):
        return it.fresh_str("excmsg")


class ExcClassRef(SV):
    def __init__(self, name):
        self.name = name

    def __repr__(self):
        return "<excclass %s>" % self.name

    def __eq__(self, o):
        return isinstance(o, ExcClassRef) and o.name == self.name

    def __hash__(self):
        return hash(("exc", self.name))

    def sv_call(self, it, args, kwargs):
        return SExc(self.name, list(args))


class FuncRef(SV):
    def __init__(self, fi):
        self.fi = fi

    def __repr__(self):
        return "<func %s>" % self.fi.qualname

    def __eq__(self, o):
        return isinstance(o, FuncRef) and o.fi.qualname == self.fi.qualname

    def __hash__(self):
        return hash(self.fi.qualname)

    def sv_call(self, it, args, kwargs):
        return it.call_funcinfo(self.fi, list(args), kwargs)

    def sv_getattr(self, it, name):
        raise Unsupported("attribute %s of function %s" % (name, self.fi.qualname))


class Closure(SV):
    """a lambda or nested def evaluated in a frame"""

    def __init__(self, node, frame):
        self.node = node
        self.frame = frame

    def sv_call(self, it, args, kwargs):
        return it.call_closure(self, list(args), kwargs)


class BoundMethod(SV):
    def __init__(self, obj, fi):
        self.obj = obj
        self.fi = fi

    def __repr__(self):
        return "<bound %s of %r>" % (self.fi.qualname, self.obj)

    def sv_call(self, it, args, kwargs):
        return it.call_funcinfo(self.fi, [self.obj] + list(args), kwargs)


class ClassRef(SV):
    def __init__(self, ci):
        self.ci = ci

    def __repr__(self):
        return "<classref %s>" % self.ci.qualname

    def __eq__(self, o):
        return isinstance(o, ClassRef) and o.ci.qualname == self.ci.qualname

    def __hash__(self):
        return hash(self.ci.qualname)

    def sv_call(self, it, args, kwargs):
        return it.domain.construct(it, self.ci, list(args), kwargs)

    def sv_getattr(self, it, name):
        if name == "__name__":
            return self.ci.name
        fi = it.repo.find_method(self.ci, name)
        if fi is not None:
            if fi.is_classmethod:
                return BoundMethod(self, fi)
            return FuncRef(fi)
        for c in it.repo.mro(self.ci):
            if name in c.class_assigns:
                return it.eval_in_module(c.module, c.class_assigns[name])
        raise PyRaise("AttributeError")


class ModuleRef(SV):
    def __init__(self, mi):
        self.mi = mi

    def __repr__(self):
        return "<module %s>" % self.mi.name

    def sv_getattr(self, it, name):
        v = it.resolve_global(self.mi, name)
        if v is MISSING:
            raise PyRaise("AttributeError")
        return v


class ExternalRef(SV):
    """a named object from outside the package (numpy.add, copy.deepcopy, ...).  Compared
    by name.  Calls go through the domain's table of assumed contracts."""

    def __init__(self, name):
        self.name = name

    def __repr__(self):
        return "<ext %s>" % self.name

    def __eq__(self, o):
        return isinstance(o, ExternalRef) and o.name == self.name

    def __hash__(self):
        return hash(("ext", self.name))

    def sv_getattr(self, it, name):
        return it.domain.external_attr(it, self, name)

    def sv_call(self, it, args, kwargs):
        return it.domain.call_external(it, self, list(args), kwargs)

    def sv_compare(self, it, op, other, reflected):
        if op == "==":
            return self == other
        if op == "!=":
            return not (self == other)
        return NotImplemented

    def sv_str(self, it):
        return it.fresh_str("extstr")


class Intrinsic(SV):
    def __init__(self, name, fn):
        self.name = name
        self.fn = fn

    def __repr__(self):
        return "<intrinsic %s>" % self.name

    def sv_call(self, it, args, kwargs):
        return self.fn(it, *args, **kwargs)


class Opaque(SV):
    """a value about which nothing is known except identity"""
    _n = 0

    def __init__(self, label="opaque"):
        Opaque._n += 1
        self.label = "%s!%d" % (label, Opaque._n)

    def __repr__(self):
        return "<%s>" % self.label

    def sv_str(self, it):
        return it.fresh_str("opaquestr")


BINOP_DUNDER = {
    "+": ("__add__", "__radd__"), "-": ("__sub__", "__rsub__"),
    "*": ("__mul__", "__rmul__"), "/": ("__truediv__", "__rtruediv__"),
    "//": ("__floordiv__", "__rfloordiv__"), "%": ("__mod__", "__rmod__"),
    "**": ("__pow__", "__rpow__"), "@": ("__matmul__", "__rmatmul__"),
}
AST_BINOP = {ast.Add: "+", ast.Sub: "-", ast.Mult: "*", ast.Div: "/", ast.FloorDiv: "//",
             ast.Mod: "%", ast.Pow: "**", ast.MatMult: "@", ast.BitAnd: "&",
             ast.BitOr: "|", ast.BitXor: "^", ast.LShift: "<<", ast.RShift: ">>"}
AST_CMP = {ast.Eq: "==", ast.NotEq: "!=", ast.Lt: "<", ast.LtE: "<=", ast.Gt: ">",
           ast.GtE: ">="}
SWAP_CMP = {"==": "==", "!=": "!=", "<": ">", "<=": ">=", ">": "<", ">=": "<="}


def is_z3(v):
    return isinstance(v, z3.ExprRef)


def is_num(v):
    return (isinstance(v, (int, Fraction)) and not isinstance(v, bool)) or (
        is_z3(v) and z3.is_arith(v))


def is_floaty(v):
    """models Python `float` (reals) as opposed to `int`"""
    return isinstance(v, Fraction) or (is_z3(v) and z3.is_real(v))


def is_bool(v):
    return isinstance(v, bool) or (is_z3(v) and z3.is_bool(v))


def is_str(v):
    return isinstance(v, str) or (is_z3(v) and z3.is_string(v))


def to_z3(v):
    if is_z3(v):
        return v
    if isinstance(v, bool):
        return z3.BoolVal(v)
    if isinstance(v, int):
        return z3.IntVal(v)
    if isinstance(v, Fraction):
        return z3.RealVal(str(v))
    if isinstance(v, float):
        return z3.RealVal(str(Fraction(repr(v))))
    if isinstance(v, str):
        return z3.StringVal(v)
    raise Unsupported("to_z3(%r)" % (v,))


def to_real(v):
    t = to_z3(v)
    if z3.is_int(t):
        return z3.ToReal(t)
    return t


def const_float(x):
    """a Python float literal is modelled as the decimal rational it is written as"""
    return Fraction(repr(x)) if isinstance(x, float) else x


# --------------------------------------------------------------------------- path ctx
class ObligationResult:
    def __init__(self, label, kind, verdict, backend, model=None, where=None, formula=None):
        self.label = label
        self.kind = kind
        self.verdict = verdict        # 'unsat' (discharged) | 'sat' (failed) | 'unknown'
        self.backend = backend
        self.model = model
        self.where = where
        self.formula = formula


class Ctx:
    """state of one explored path"""

    def __init__(self, explorer, prefix):
        self.ex = explorer
        self.solver = smt.new_solver()
        self.prefix = list(prefix)
        self.trace = []
        self.results = []
        self.counter = 0
        self.abstract_crossed = []        # names of abstract (inexact) contracts crossed
        self.events = []                  # ghost events (warnings, stores, ...)
        self.tracked = {}                 # label -> z3 term, for model printing / replay
        self.univ = []                    # universally quantified facts: callables x -> formula

    def fresh_name(self, base):
        self.counter += 1
        return "%s!%d" % (base, self.counter)

    def assume(self, f):
        if isinstance(f, bool):
            if not f:
                raise Infeasible()
            return
        self.solver.add(f)

    def feasible(self, f=None):
        v, _, _ = smt.check(self.solver, *([f] if f is not None else []), use_cvc5=False)
        return v != "unsat"

    def branch(self, cond):
        """decide a symbolic condition; forks the exploration when both sides are feasible"""
        if isinstance(cond, bool):
            return cond
        cond = z3.simplify(cond)
        if z3.is_true(cond):
            return True
        if z3.is_false(cond):
            return False
        i = len(self.trace)
        if i < len(self.prefix):
            d = self.prefix[i]
        else:
            t_ok = self.feasible(cond)
            f_ok = self.feasible(z3.Not(cond))
            if t_ok and f_ok:
                d = True
                self.ex.push(self.trace + [False])
            elif t_ok:
                d = True
            elif f_ok:
                d = False
            else:
                raise Infeasible()
        self.trace.append(d)
        self.solver.add(cond if d else z3.Not(cond))
        return d

    def choose(self, n, label="choice"):
        """non-deterministic choice among n alternatives (all explored)"""
        for k in range(n - 1):
            b = z3.Bool(self.fresh_name(label))
            if self.branch(b):
                return k
        return n - 1

    def prove(self, label, formula, kind="post", where=None):
        if isinstance(formula, bool):
            if formula:
                r = ObligationResult(label, kind, "unsat", "trivial", where=where)
            else:
                v, m, be = smt.check(self.solver)
                if v == "unsat":
                    r = ObligationResult(label, kind, "unsat", be, where=where)
                else:
                    r = ObligationResult(label, kind, v, be, model=self._model(m), where=where,
                                         formula="False")
            self.results.append(r)
            return r
        neg = z3.Not(formula)
        v, m, be = smt.check(self.solver, neg)
        r = ObligationResult(label, kind, v, be, model=self._model(m) if m else None,
                             where=where,
                             formula=str(z3.simplify(formula))[:400] if v != "unsat" else None)
        self.results.append(r)
        return r

    def cover(self, label, formula=None):
        """reachability obligation: path (∧ formula) must be satisfiable"""
        v, m, be = smt.check(self.solver, *([formula] if formula is not None else []))
        r = ObligationResult(label, "cover", "unsat" if v == "sat" else
                             ("sat" if v == "unsat" else "unknown"), be)
        # (for covers we store 'unsat' == discharged to keep one convention)
        self.results.append(r)
        return r

    def track(self, label, term):
        self.tracked[label] = term

    def instantiate(self, *terms):
        """assume every recorded universally quantified fact (a proved postcondition of the
        form `for every reading x: ...`) at the given terms"""
        for fact in self.univ:
            for t in terms:
                self.assume(fact(t))

    def _model(self, m):
        if m is None:
            return None
        out = {}
        for k, t in self.tracked.items():
            try:
                out[k] = smt.model_value(m, t) if is_z3(t) else t
            except Exception:
                out[k] = "?"
        return out


class PathResult:
    def __init__(self, outcome, value, ctx, error=None):
        self.outcome = outcome      # 'return' | 'raise' | 'unsupported' | 'infeasible'
        self.value = value
        self.ctx = ctx
        self.error = error


class Explorer:
    def __init__(self, max_paths=4000):
        self.work = [[]]
        self.max_paths = max_paths
        self.paths = 0

    def push(self, prefix):
        self.work.append(prefix)

    def run(self, path_fn):
        """path_fn(ctx) runs one path to completion and returns a PathResult"""
        out = []
        while self.work:
            prefix = self.work.pop()
            self.paths += 1
            if self.paths > self.max_paths:
                raise PathLimit("more than %d paths" % self.max_paths)
            ctx = Ctx(self, prefix)
            try:
                res = path_fn(ctx)
            except Infeasible:
                continue
            out.append(res)
        return out


# --------------------------------------------------------------------------- frames
class Frame:
    def __init__(self, module, locals_=None, func=None, parent=None):
        self.module = module
        self.locals = dict(locals_ or {})
        self.func = func
        self.parent = parent          # enclosing frame for closures

    def lookup(self, name):
        f = self
        while f is not None:
            if name in f.locals:
                return f.locals[name]
            f = f.parent
        return MISSING


# --------------------------------------------------------------------------- module-level memo dicts
def memo_writers(module, name):
    """names of the module's functions that store into the module-level dict `name` (D[k] = v, also as one
    target of a chained assignment), or None when `name` is not an initially empty dict literal / nobody
    stores into it"""
    cache = module.__dict__.setdefault("_memo_writers", {})
    if name in cache:
        return cache[name]
    expr = module.assigns.get(name)
    empty = (isinstance(expr, ast.Dict) and not expr.keys) or (
        isinstance(expr, ast.Call) and isinstance(expr.func, ast.Name) and expr.func.id == "dict"
        and not expr.args and not expr.keywords)
    writers = None
    if empty:
        found = set()
        for fn in ast.walk(module.tree):
            if not isinstance(fn, (ast.FunctionDef, ast.Lambda)):
                continue
            for x in ast.walk(fn):
                if isinstance(x, ast.Subscript) and isinstance(x.ctx, (ast.Store, ast.Del)) \
                        and isinstance(x.value, ast.Name) and x.value.id == name:
                    found.add(getattr(fn, "name", "<lambda>"))
                if isinstance(x, ast.Call) and isinstance(x.func, ast.Attribute) and isinstance(
                        x.func.value, ast.Name) and x.func.value.id == name and x.func.attr in (
                        "setdefault", "update", "pop", "clear", "popitem", "__setitem__"):
                    found.add("<method %s>" % x.func.attr)
        writers = sorted(found) or None
    cache[name] = writers
    return writers


class SMemoDict(SV):
    """a module-level dict used as a memo by one function F of the module (`try: return D[key]` /
    `D[key] = value`).  What a lookup finds was stored by an earlier call of F: a hit returns the value
    that call stored -- F re-enacted on fresh arguments of the same kinds whose key equals the present
    key -- and a miss raises KeyError.  Both are explored.  Anything else (several writers, other dict
    methods) is outside the modelled subset."""

    def __init__(self, module, name, writers):
        self.module, self.name, self.writers = module, name, writers

    def __repr__(self):
        return "<memo dict %s.%s>" % (self.module.name, self.name)

    def _key(self):
        return self.module.name + "." + self.name

    def _frame(self, it):
        if len(self.writers) != 1 or self.writers[0].startswith("<"):
            raise Unsupported("module-level dict %s written by %s" % (self._key(), self.writers))
        for fr in reversed(it.frames):
            if fr.func is not None and fr.func.node.name == self.writers[0] and fr.module is self.module:
                return fr
        raise Unsupported("module-level dict %s read outside the function that fills it" % self._key())

    def sv_setitem(self, it, key, value):
        it.memo_stores.setdefault(self._key(), []).append((key, value))

    def _earlier(self, it, key):
        fr = self._frame(it)
        args = {n: it.domain.fresh_like(it, v, "earlier_" + n) for n, v in fr.entry_args.items()}
        k = self._key()
        stores = it.memo_stores.setdefault(k, [])
        mark = len(stores)
        it.memo_mode[k] = "miss"
        try:
            it.run_body(fr.func, [], args)
        except PyRaise:
            # an earlier call that raised is not the present call raising; what it stored before raising (if
            # anything) is still there
            pass
        finally:
            it.memo_mode.pop(k, None)
        mine = stores[mark:]
        del stores[mark:]
        if not mine:
            raise Infeasible()               # that earlier call left nothing behind
        key2, value = mine[-1]
        same = it.compare("==", key2, key)
        if same is False:
            raise Infeasible()
        if same is not True:
            it.assume(to_z3(it.truth_term(same)))
        it.ctx.events.append(("memo-hit", k))
        return value

    def sv_getitem(self, it, key):
        k = self._key()
        if it.memo_mode.get(k) == "miss":
            raise PyRaise("KeyError")
        for key2, value in reversed(it.memo_stores.get(k, [])):
            if key2 is key:
                return value
        self._frame(it)
        if it.branch(it.fresh_bool("memo_%s_hit" % self.name)):
            return self._earlier(it, key)
        raise PyRaise("KeyError")

    def sv_contains(self, it, key):
        k = self._key()
        if it.memo_mode.get(k) == "miss":
            return False
        self._frame(it)
        raise Unsupported("membership test on the memo dict %s" % k)

    def sv_truth(self, it):
        raise Unsupported("truth of the memo dict %s" % self._key())

    def sv_getattr(self, it, name):
        if name == "get":
            def get(it_, key, default=None):
                k = self._key()
                if it_.memo_mode.get(k) == "miss":
                    return default
                for key2, value in reversed(it_.memo_stores.get(k, [])):
                    if key2 is key:
                        return value
                self._frame(it_)
                if it_.branch(it_.fresh_bool("memo_%s_hit" % self.name)):
                    return self._earlier(it_, key)
                return default
            return Intrinsic("memo.get", get)
        raise Unsupported("method %s of the memo dict %s" % (name, self._key()))


# --------------------------------------------------------------------------- interpreter
class Interp:
    def __init__(self, repo, domain, ctx, contracts=None, verifying=None):
        self.repo = repo
        self.domain = domain
        self.ctx = ctx
        self.contracts = contracts or {}
        self.verifying = verifying        # qualname whose body is being verified (never
        #                                   replaced by its own contract at top level)
        self.depth = 0
        self.module_cache = {}
        self.call_log = []
        self.steps = 0
        self.frames = []                  # frames of the package functions being executed (innermost last)
        self.memo_mode = {}               # memo dict name -> "miss" while an earlier call is re-enacted
        self.memo_stores = {}             # memo dict name -> [(key, value)] stored on this path

    # ---- small helpers
    def fresh_real(self, base="r"):
        return z3.Real(self.ctx.fresh_name(base))

    def fresh_int(self, base="i"):
        return z3.Int(self.ctx.fresh_name(base))

    def fresh_bool(self, base="b"):
        return z3.Bool(self.ctx.fresh_name(base))

    def fresh_str(self, base="s"):
        return z3.String(self.ctx.fresh_name(base))

    def branch(self, cond):
        return self.ctx.branch(cond)

    def assume(self, f):
        self.ctx.assume(f)

    def raise_(self, exc, *args):
        raise PyRaise(exc, SExc(exc, list(args)))

    def not_(self, v):
        if isinstance(v, bool):
            return not v
        if is_z3(v) and z3.is_bool(v):
            return z3.Not(v)
        return not self.truth(v)

    # ---- truthiness
    def truth_term(self, v):
        """boolean value of v as python bool or z3 Bool (no forking)"""
        if isinstance(v, bool):
            return v
        if v is None:
            return False
        if is_z3(v):
            if z3.is_bool(v):
                return v
            if z3.is_arith(v):
                return v != 0
            if z3.is_string(v):
                return z3.Length(v) > 0
            raise Unsupported("truth of z3 sort %s" % v.sort())
        if isinstance(v, (int, Fraction, float)):
            return v != 0
        if isinstance(v, (str, tuple, list, dict, set, frozenset)):
            return len(v) > 0
        if isinstance(v, SV):
            return v.sv_truth(self)
        raise Unsupported("truth of %r" % (v,))

    def truth(self, v):
        t = self.truth_term(v)
        if isinstance(t, bool):
            return t
        return self.branch(t)

    # ---- name resolution
    def resolve_global(self, module, name):
        key = (module.name, name)
        if key in self.module_cache:
            return self.module_cache[key]
        v = self._resolve_global(module, name)
        if v is not MISSING:
            self.module_cache[key] = v
        return v

    def _resolve_global(self, module, name):
        v = self.domain.global_override(self, module.name, name)
        if v is not MISSING:
            return v
        if name in module.functions:
            return FuncRef(module.functions[name])
        if name in module.classes:
            ci = module.classes[name]
            if module.name.endswith(".exceptions"):
                return ExcClassRef(name)
            return ClassRef(ci)
        if name in module.imports:
            imp = module.imports[name]
            if imp[0] == "module":
                if imp[1] in self.repo.modules:
                    return ModuleRef(self.repo.modules[imp[1]])
                return ExternalRef(imp[1])
            _, mod, n = imp
            if mod in self.repo.modules:
                # `from pkg import submodule` inside pkg/__init__ refers to the submodule itself
                v = MISSING if (mod == module.name and n == name) else \
                    self.resolve_global(self.repo.modules[mod], n)
                if v is not MISSING:
                    return v
                if mod + "." + n in self.repo.modules:
                    return ModuleRef(self.repo.modules[mod + "." + n])
                return MISSING
            return self.domain.external(self, mod + "." + n)
        if name in module.assigns:
            writers = memo_writers(module, name)
            if writers is not None:
                # a module-level dict that functions of the module store into: its contents at the time of
                # a call are whatever earlier calls left there, not the literal it was initialised with
                return SMemoDict(module, name, writers)
            return self.eval_in_module(module, module.assigns[name])
        return MISSING

    def eval_in_module(self, module, expr):
        return self.eval(expr, Frame(module))

    def lookup(self, name, frame):
        v = frame.lookup(name)
        if v is not MISSING:
            return v
        v = self.resolve_global(frame.module, name)
        if v is not MISSING:
            return v
        v = self.domain.builtin(self, name)
        if v is not MISSING:
            return v
        if name in self.repo.exc_hierarchy:
            return ExcClassRef(name)
        raise Unsupported("unresolved name %s in %s" % (name, frame.module.name))

    # ---- calls
    def bind(self, fnode, args, kwargs, frame_for_defaults):
        a = fnode.args
        params = [p.arg for p in a.posonlyargs] + [p.arg for p in a.args]
        bound = {}
        args = list(args)
        kwargs = dict(kwargs)
        npos = len(params)
        for i, p in enumerate(params):
            if i < len(args):
                bound[p] = args[i]
        extra = args[npos:]
        if a.vararg:
            bound[a.vararg.arg] = tuple(extra)
        elif extra:
            raise PyRaise("TypeError")
        posonly = {p.arg for p in a.posonlyargs}
        for p in params:
            if p in kwargs and p not in posonly:
                if p in bound:
                    raise PyRaise("TypeError")
                bound[p] = kwargs.pop(p)
        defaults = a.defaults
        for i, p in enumerate(params):
            if p not in bound:
                di = i - (npos - len(defaults))
                if di >= 0:
                    bound[p] = self.eval(defaults[di], frame_for_defaults)
                else:
                    raise PyRaise("TypeError")
        for p, d in zip(a.kwonlyargs, a.kw_defaults):
            if p.arg in kwargs:
                bound[p.arg] = kwargs.pop(p.arg)
            elif d is not None:
                bound[p.arg] = self.eval(d, frame_for_defaults)
            else:
                raise PyRaise("TypeError")
        if a.kwarg:
            bound[a.kwarg.arg] = dict(kwargs)
        elif kwargs:
            raise PyRaise("TypeError")
        return bound

    def call_funcinfo(self, fi, args, kwargs, force_body=False):
        """call a function of the package: through its contract when it has one (modular
        verification), otherwise inline if the domain allows it."""
        c = self.contracts.get(fi.qualname)
        if c is not None and not force_body:
            self.call_log.append(fi.qualname)
            bound = self.bind(fi.node, args, kwargs, Frame(fi.module))
            r = c.apply(self, bound)
            if fi.is_memoised:
                r = self.domain.memo_result(self, fi, r, bound)
            return r
        if not force_body and not self.domain.may_inline(self, fi):
            raise Unsupported("call to %s: no contract and not inlinable" % fi.qualname)
        r = self.run_body(fi, args, kwargs)
        if fi.is_memoised and isinstance(r, SV):
            # functools.lru_cache: the object returned may be the one handed to an earlier caller with an equal
            # key -- it is not freshly made for this call (ghost mark read by ownership postconditions)
            try:
                r.memo_shared = True
            except AttributeError:
                pass
        return r

    def run_body(self, fi, args, kwargs):
        self.depth += 1
        if self.depth > 12:
            raise Unsupported("call depth")
        try:
            mframe = Frame(fi.module)
            bound = self.bind(fi.node, args, kwargs, mframe)
            frame = Frame(fi.module, bound, func=fi)
            frame.entry_args = dict(bound)
            if fi.cls is not None:
                frame.locals.setdefault("__class__", ClassRef(fi.cls))
            self.frames.append(frame)
            try:
                self.exec_block(fi.node.body, frame)
            except _Return as r:
                return r.value
            finally:
                self.frames.pop()
            return None
        finally:
            self.depth -= 1

    def call_closure(self, clo, args, kwargs):
        node = clo.node
        self.depth += 1
        try:
            bound = self.bind(node, args, kwargs, clo.frame)
            frame = Frame(clo.frame.module, bound, func=clo.frame.func, parent=clo.frame)
            if isinstance(node, ast.Lambda):
                return self.eval(node.body, frame)
            try:
                self.exec_block(node.body, frame)
            except _Return as r:
                return r.value
            return None
        finally:
            self.depth -= 1

    def call(self, f, args, kwargs):
        if isinstance(f, SV):
            return f.sv_call(self, args, kwargs)
        raise Unsupported("call of non-callable %r" % (f,))

    # ---- statements
    def exec_block(self, body, frame):
        for st in body:
            self.exec_stmt(st, frame)

    def exec_stmt(self, st, frame):
        self.steps += 1
        if self.steps > 200000:
            raise Unsupported("step limit")
        m = getattr(self, "st_" + type(st).__name__, None)
        if m is None:
            raise Unsupported("statement %s (line %d)" % (type(st).__name__, st.lineno))
        try:
            return m(st, frame)
        except PyRaise as e:
            if e.where is None:
                e.where = (frame.module.name, st.lineno)
            raise

    def st_Expr(self, st, frame):
        if isinstance(st.value, ast.Constant):
            return
        self.eval(st.value, frame)

    def st_Pass(self, st, frame):
        pass

    def st_Return(self, st, frame):
        raise _Return(self.eval(st.value, frame) if st.value is not None else None)

    def st_Break(self, st, frame):
        raise _Break()

    def st_Continue(self, st, frame):
        raise _Continue()

    def st_Import(self, st, frame):
        for a in st.names:
            local = a.asname or a.name.split(".")[0]
            full = a.name if a.asname else a.name.split(".")[0]
            if full in self.repo.modules:
                frame.locals[local] = ModuleRef(self.repo.modules[full])
            else:
                frame.locals[local] = ExternalRef(full)

    def st_ImportFrom(self, st, frame):
        mod = st.module or ""
        if st.level:
            pkg = frame.module.name.rsplit(".", st.level)[0]
            mod = pkg + ("." + mod if mod else "")
        for a in st.names:
            local = a.asname or a.name
            if mod in self.repo.modules:
                v = self.resolve_global(self.repo.modules[mod], a.name)
                if v is MISSING:
                    if mod + "." + a.name in self.repo.modules:
                        v = ModuleRef(self.repo.modules[mod + "." + a.name])
                    else:
                        raise Unsupported("import %s from %s" % (a.name, mod))
            else:
                v = self.domain.external(self, mod + "." + a.name)
            frame.locals[local] = v

    def st_Assign(self, st, frame):
        v = self.eval(st.value, frame)
        for t in st.targets:
            self.assign(t, v, frame)

    def st_AnnAssign(self, st, frame):
        if st.value is not None:
            self.assign(st.target, self.eval(st.value, frame), frame)

    def st_AugAssign(self, st, frame):
        op = AST_BINOP[type(st.op)]
        cur = self.eval(st.target, frame)
        v = self.eval(st.value, frame)
        r = self.domain.inplace_binop(self, op, cur, v)
        if r is MISSING:
            r = self.binop(op, cur, v)
        self.assign(st.target, r, frame)

    def st_Delete(self, st, frame):
        for t in st.targets:
            if isinstance(t, ast.Subscript):
                o = self.eval(t.value, frame)
                k = self.eval(t.slice, frame)
                self.delitem(o, k)
            elif isinstance(t, ast.Name):
                frame.locals.pop(t.id, None)
            else:
                raise Unsupported("del target")

    def st_If(self, st, frame):
        # if-conversion (no fork) for a guarded deletion from a symbolic table:
        #     if <cond>: del table[key]
        if not st.orelse and len(st.body) == 1 and isinstance(st.body[0], ast.Delete) \
                and len(st.body[0].targets) == 1 and isinstance(st.body[0].targets[0], ast.Subscript):
            tgt = st.body[0].targets[0]
            table = self.eval(tgt.value, frame)
            if hasattr(table, "guarded_delete"):
                cond = self.truth_term(self.eval(st.test, frame))
                if not isinstance(cond, bool):
                    table.guarded_delete(self, cond, self.eval(tgt.slice, frame))
                    return
                if cond:
                    self.exec_block(st.body, frame)
                return
        if self.truth(self.eval(st.test, frame)):
            self.exec_block(st.body, frame)
        else:
            self.exec_block(st.orelse, frame)

    def st_Assert(self, st, frame):
        if not self.truth(self.eval(st.test, frame)):
            self.raise_("AssertionError")

    def st_Raise(self, st, frame):
        if st.exc is None:
            cur = frame.locals.get("__current_exc__")
            if cur is None:
                raise Unsupported("bare raise outside handler")
            raise PyRaise(cur.exc, cur.obj)
        e = self.eval(st.exc, frame)
        if isinstance(e, ExcClassRef):
            e = SExc(e.name, [])
        if not isinstance(e, SExc):
            raise Unsupported("raise of %r" % (e,))
        raise PyRaise(e.name, e, (frame.module.name, st.lineno))

    def st_Try(self, st, frame):
        try:
            try:
                self.exec_block(st.body, frame)
            except PyRaise as e:
                for h in st.handlers:
                    if self.handler_matches(h, e, frame):
                        if h.name:
                            frame.locals[h.name] = e.obj or SExc(e.exc, [])
                        saved = frame.locals.get("__current_exc__")
                        frame.locals["__current_exc__"] = e
                        try:
                            self.exec_block(h.body, frame)
                        finally:
                            if saved is None:
                                frame.locals.pop("__current_exc__", None)
                            else:
                                frame.locals["__current_exc__"] = saved
                        break
                else:
                    raise
            else:
                self.exec_block(st.orelse, frame)
        finally:
            if st.finalbody:
                self.exec_block(st.finalbody, frame)

    def handler_matches(self, h, e, frame):
        if h.type is None:
            return True
        t = self.eval(h.type, frame)
        ts = t if isinstance(t, tuple) else (t,)
        for c in ts:
            if isinstance(c, ExcClassRef):
                if self.repo.exc_issubclass(e.exc, c.name):
                    return True
            else:
                raise Unsupported("except clause type %r" % (c,))
        return False

    def st_With(self, st, frame):
        for item in st.items:
            cm = self.eval(item.context_expr, frame)
            if item.optional_vars is not None:
                self.assign(item.optional_vars, cm, frame)
        self.exec_block(st.body, frame)

    def st_FunctionDef(self, st, frame):
        frame.locals[st.name] = Closure(st, frame)

    def st_For(self, st, frame):
        it = self.eval(st.iter, frame)
        items = self.iterate(it)
        broke = False
        for x in items:
            self.assign(st.target, x, frame)
            try:
                self.exec_block(st.body, frame)
            except _Break:
                broke = True
                break
            except _Continue:
                continue
        if not broke:
            self.exec_block(st.orelse, frame)

    def st_While(self, st, frame):
        n = 0
        while self.truth(self.eval(st.test, frame)):
            n += 1
            if n > 64:
                raise Unsupported("while loop unrolled > 64 times (needs an invariant)")
            try:
                self.exec_block(st.body, frame)
            except _Break:
                return
            except _Continue:
                continue
        self.exec_block(st.orelse, frame)

    def st_Global(self, st, frame):
        raise Unsupported("global statement")

    # ---- assignment targets
    def assign(self, t, v, frame):
        if isinstance(t, ast.Name):
            frame.locals[t.id] = v
        elif isinstance(t, (ast.Tuple, ast.List)):
            if hasattr(v, "sv_unpack") and not any(isinstance(e, ast.Starred) for e in t.elts):
                vals = v.sv_unpack(self, len(t.elts))
            else:
                vals = self.iterate(v)
            star = [i for i, e in enumerate(t.elts) if isinstance(e, ast.Starred)]
            if star:
                i = star[0]
                after = len(t.elts) - i - 1
                if len(vals) < len(t.elts) - 1:
                    raise PyRaise("ValueError")
                for e, x in zip(t.elts[:i], vals[:i]):
                    self.assign(e, x, frame)
                self.assign(t.elts[i].value, list(vals[i:len(vals) - after]), frame)
                for e, x in zip(t.elts[i + 1:], vals[len(vals) - after:]):
                    self.assign(e, x, frame)
            else:
                if len(vals) != len(t.elts):
                    raise PyRaise("ValueError")
                for e, x in zip(t.elts, vals):
                    self.assign(e, x, frame)
        elif isinstance(t, ast.Attribute):
            o = self.eval(t.value, frame)
            self.setattr(o, t.attr, v)
        elif isinstance(t, ast.Subscript):
            o = self.eval(t.value, frame)
            k = self.eval(t.slice, frame)
            self.setitem(o, k, v)
        else:
            raise Unsupported("assignment target %s" % type(t).__name__)

    # ---- object protocol
    def getattr(self, o, name):
        if isinstance(o, SV):
            return o.sv_getattr(self, name)
        v = self.domain.prim_getattr(self, o, name)
        if v is not MISSING:
            return v
        raise PyRaise("AttributeError")

    def setattr(self, o, name, v):
        if isinstance(o, SV):
            return o.sv_setattr(self, name, v)
        raise Unsupported("setattr on %r" % (o,))

    def getitem(self, o, k):
        if isinstance(o, SV):
            return o.sv_getitem(self, k)
        if isinstance(o, (tuple, list)):
            if isinstance(k, slice):
                if all(x is None or isinstance(x, int) for x in (k.start, k.stop, k.step)):
                    return o[k]
                raise Unsupported("symbolic slice of sequence")
            if isinstance(k, bool):
                k = int(k)
            if isinstance(k, int):
                if -len(o) <= k < len(o):
                    return o[k]
                self.raise_("IndexError")
            if is_z3(k) and z3.is_int(k):
                for i in range(len(o)):
                    if self.branch(k == i):
                        return o[i]
                self.raise_("IndexError")
            raise Unsupported("index %r" % (k,))
        if isinstance(o, dict):
            if is_z3(k):
                return self.dict_getitem_symbolic(o, k)
            kk = self.dict_key(k)
            if kk in o:
                return o[kk]
            self.raise_("KeyError")
        if is_str(o):
            return self.domain.str_getitem(self, o, k)
        raise Unsupported("getitem on %r" % (o,))

    def dict_getitem_symbolic(self, d, k):
        """d[k] for a concrete dict and a symbolic key: KeyError fork, then the value as an
        if-then-else over the entries (falls back to forking per key)"""
        keys = [kk for kk in d if self.kind(kk) == self.kind(k)]
        if not keys:
            self.raise_("KeyError")
        member = z3.Or(*[to_z3(k) == to_z3(kk) for kk in keys])
        if not self.branch(member):
            self.raise_("KeyError")
        merged = self.merge_ite([(to_z3(k) == to_z3(kk), d[kk]) for kk in keys])
        if merged is not MISSING:
            return merged
        for kk in keys[:-1]:
            if self.branch(to_z3(k) == to_z3(kk)):
                return d[kk]
        return d[keys[-1]]

    def merge_ite(self, cases):
        vals = [const_float(v) for _, v in cases]
        if all(isinstance(v, tuple) for v in vals) and len({len(v) for v in vals}) == 1:
            out = []
            for i in range(len(vals[0])):
                m = self.merge_ite([(c, v[i]) for (c, _), v in zip(cases, vals)])
                if m is MISSING:
                    return MISSING
                out.append(m)
            return tuple(out)
        if all(not is_z3(v) and not isinstance(v, SV) for v in vals) and \
                all(v == vals[0] for v in vals) and all(type(v) is type(vals[0]) for v in vals):
            return vals[0]
        if all(is_num(v) for v in vals):
            real = any(is_floaty(v) for v in vals)
            t = (to_real if real else to_z3)(vals[-1])
            for (c, _), v in reversed(list(zip(cases, vals))[:-1]):
                t = z3.If(c, (to_real if real else to_z3)(v), t)
            return t
        if all(is_str(v) for v in vals) or all(is_bool(v) for v in vals):
            t = to_z3(vals[-1])
            for (c, _), v in reversed(list(zip(cases, vals))[:-1]):
                t = z3.If(c, to_z3(v), t)
            return t
        return MISSING

    def dict_key(self, k):
        if is_z3(k):
            raise Unsupported("symbolic key for concrete dict")
        return k

    def setitem(self, o, k, v):
        if isinstance(o, SV):
            return o.sv_setitem(self, k, v)
        if isinstance(o, list):
            if isinstance(k, int) and -len(o) <= k < len(o):
                o[k] = v
                return
            raise Unsupported("list setitem")
        if isinstance(o, dict):
            o[self.dict_key(k)] = v
            return
        raise Unsupported("setitem on %r" % (o,))

    def delitem(self, o, k):
        if isinstance(o, SV):
            return o.sv_delitem(self, k)
        if isinstance(o, dict):
            kk = self.dict_key(k)
            if kk in o:
                del o[kk]
                return
            self.raise_("KeyError")
        raise Unsupported("delitem on %r" % (o,))

    def contains(self, item, container):
        if isinstance(container, SV):
            return container.sv_contains(self, item)
        if isinstance(container, (tuple, list, set, frozenset)):
            acc = False
            for x in container:
                e = self.compare("==", item, x, identity_first=True)
                if e is True:
                    return True
                if e is False:
                    continue
                acc = e if acc is False else z3.Or(acc, e)
            return acc
        if isinstance(container, dict):
            if is_z3(item):
                acc = False
                for x in container:
                    e = self.compare("==", item, x)
                    if e is True:
                        return True
                    if e is False:
                        continue
                    acc = e if acc is False else z3.Or(acc, e)
                return acc
            try:
                return item in container
            except TypeError:
                raise Unsupported("unhashable key %r" % (item,))
        if is_str(container) and is_str(item):
            if isinstance(container, str) and isinstance(item, str):
                return item in container
            return z3.Contains(to_z3(container), to_z3(item))
        raise Unsupported("contains on %r" % (container,))

    def iterate(self, it):
        if isinstance(it, (tuple, list)):
            return list(it)
        if isinstance(it, dict):
            return list(it.keys())
        if isinstance(it, (set, frozenset)):
            return list(it)
        if isinstance(it, str):
            return list(it)
        if isinstance(it, range):
            return list(it)
        if isinstance(it, SV):
            return it.sv_iter(self)
        raise Unsupported("iteration over %r" % (it,))

    def length(self, o):
        if isinstance(o, (tuple, list, dict, str, set, frozenset, range)):
            return len(o)
        if is_z3(o) and z3.is_string(o):
            return z3.Length(o)
        if isinstance(o, SV):
            return o.sv_len(self)
        raise PyRaise("TypeError")

    def to_str(self, v, kind="str"):
        if isinstance(v, str):
            return v if kind == "str" else repr(v)
        if is_z3(v) and z3.is_string(v):
            if kind == "str":
                return v
            raise Unsupported("repr of symbolic string")
        if isinstance(v, SV):
            return v.sv_str(self) if kind == "str" else v.sv_repr(self)
        if isinstance(v, bool) or v is None or isinstance(v, int):
            return str(v)
        if isinstance(v, Fraction) or (is_z3(v) and z3.is_arith(v)):
            return self.domain.num_str(self, v)
        if is_z3(v):
            return self.fresh_str("valstr")
        if isinstance(v, (tuple, list, dict)):
            return self.fresh_str("seqstr")
        raise Unsupported("str of %r" % (v,))

    # ---- operators
    def binop(self, op, a, b):
        a = const_float(a)
        b = const_float(b)
        if isinstance(a, SV):
            r = a.sv_binop(self, op, b, False)
            if r is not NotImplemented:
                return r
        if isinstance(b, SV):
            r = b.sv_binop(self, op, a, True)
            if r is not NotImplemented:
                return r
        if is_num(a) and is_num(b) or (isinstance(a, bool) and is_num(b)) or (
                is_num(a) and isinstance(b, bool)):
            return self.num_binop(op, a, b)
        if is_str(a) and is_str(b) and op == "+":
            if isinstance(a, str) and isinstance(b, str):
                return a + b
            return z3.Concat(to_z3(a), to_z3(b))
        if isinstance(a, str) and isinstance(b, int) and op == "*":
            return a * b
        if isinstance(a, tuple) and isinstance(b, tuple) and op == "+":
            return a + b
        if isinstance(a, list) and isinstance(b, list) and op == "+":
            return a + b
        if isinstance(a, (tuple, list)) and isinstance(b, int) and op == "*":
            return a * b
        if isinstance(a, str) and op == "%":
            return self.fresh_str("fmt")
        r = self.domain.prim_binop(self, op, a, b)
        if r is not MISSING:
            return r
        if isinstance(a, SV) or isinstance(b, SV):
            raise PyRaise("TypeError")
        raise Unsupported("binop %s on %r, %r" % (op, a, b))

    def num_binop(self, op, a, b):
        conc = not is_z3(a) and not is_z3(b)
        if isinstance(a, bool):
            a = int(a)
        if isinstance(b, bool):
            b = int(b)
        if conc:
            try:
                if op == "+":
                    return a + b
                if op == "-":
                    return a - b
                if op == "*":
                    return a * b
                if op == "/":
                    if b == 0:
                        self.raise_("ZeroDivisionError")
                    return Fraction(a) / Fraction(b)
                if op == "//":
                    if b == 0:
                        self.raise_("ZeroDivisionError")
                    r = a // b
                    return Fraction(r) if isinstance(a, Fraction) or isinstance(b, Fraction) else r
                if op == "%":
                    if b == 0:
                        self.raise_("ZeroDivisionError")
                    return a % b
                if op == "**":
                    if isinstance(b, int) or (isinstance(b, Fraction) and b.denominator == 1):
                        bi = int(b)
                        if a == 0 and bi < 0:
                            self.raise_("ZeroDivisionError")
                        r = Fraction(a) ** bi
                        if isinstance(a, int) and isinstance(b, int) and bi >= 0:
                            return int(r)
                        return r
                    return self.domain.rpow(self, a, b)
            except PyRaise:
                raise
            raise Unsupported("concrete op %s" % op)
        if op in ("+", "-", "*"):
            za, zb = to_z3(a), to_z3(b)
            if z3.is_real(za) or z3.is_real(zb):
                za, zb = to_real(za), to_real(zb)
            return {"+": operator.add, "-": operator.sub, "*": operator.mul}[op](za, zb)
        if op == "/":
            zb = to_real(b)
            if self.branch(zb == 0):
                self.raise_("ZeroDivisionError")
            return to_real(a) / zb
        if op == "**":
            if isinstance(b, int) or (isinstance(b, Fraction) and b.denominator == 1):
                n = int(b)
                za = to_real(a) if (n < 0 or is_floaty(a) or isinstance(b, Fraction)) else to_z3(a)
                if abs(n) <= 8:
                    r = z3.RealVal(1) if z3.is_real(za) else z3.IntVal(1)
                    for _ in range(abs(n)):
                        r = r * za
                    if n < 0:
                        if self.branch(za == 0):
                            self.raise_("ZeroDivisionError")
                        r = z3.RealVal(1) / r
                    return r
            return self.domain.rpow(self, a, b)
        if op in ("//", "%"):
            za, zb = to_z3(a), to_z3(b)
            if z3.is_int(za) and z3.is_int(zb):
                if self.branch(zb == 0):
                    self.raise_("ZeroDivisionError")
                # python floor semantics for positive divisor equal z3's; restrict
                if self.branch(zb > 0):
                    return za / zb if op == "//" else za % zb
                raise Unsupported("int floor-div by negative symbolic")
            raise Unsupported("real floor-div/mod")
        raise Unsupported("num op %s" % op)

    def compare(self, op, a, b, identity_first=False):
        a = const_float(a)
        b = const_float(b)
        if identity_first and a is b:
            return True
        if isinstance(a, SV):
            r = a.sv_compare(self, op, b, False)
            if r is not NotImplemented:
                return r
        if isinstance(b, SV):
            r = b.sv_compare(self, SWAP_CMP[op], a, True)
            if r is not NotImplemented:
                return r
        if (is_num(a) or isinstance(a, bool)) and (is_num(b) or isinstance(b, bool)):
            if not is_z3(a) and not is_z3(b):
                return {"==": operator.eq, "!=": operator.ne, "<": operator.lt,
                        "<=": operator.le, ">": operator.gt, ">=": operator.ge}[op](a, b)
            za, zb = to_z3(int(a) if isinstance(a, bool) else a), to_z3(
                int(b) if isinstance(b, bool) else b)
            if z3.is_real(za) or z3.is_real(zb):
                za, zb = to_real(za), to_real(zb)
            return {"==": operator.eq, "!=": operator.ne, "<": operator.lt,
                    "<=": operator.le, ">": operator.gt, ">=": operator.ge}[op](za, zb)
        if is_bool(a) and is_bool(b):
            if op == "==":
                return to_z3(a) == to_z3(b)
            if op == "!=":
                return to_z3(a) != to_z3(b)
        if is_str(a) and is_str(b):
            if isinstance(a, str) and isinstance(b, str):
                return {"==": operator.eq, "!=": operator.ne, "<": operator.lt,
                        "<=": operator.le, ">": operator.gt, ">=": operator.ge}[op](a, b)
            if op == "==":
                return to_z3(a) == to_z3(b)
            if op == "!=":
                return to_z3(a) != to_z3(b)
            raise Unsupported("string ordering")
        if op in ("==", "!="):
            # values of different kinds
            eq = self.generic_eq(a, b)
            if eq is not None:
                return eq if op == "==" else self.not_(eq)
        if op in ("<", "<=", ">", ">=") and (a is None or b is None):
            raise PyRaise("TypeError")
        raise Unsupported("compare %s on %r, %r" % (op, a, b))

    def generic_eq(self, a, b):
        if a is None or b is None:
            return a is b
        if isinstance(a, (tuple, list)) and isinstance(b, (tuple, list)):
            if type(a) is not type(b):
                return False
            if len(a) != len(b):
                return False
            acc = True
            for x, y in zip(a, b):
                e = self.compare("==", x, y, identity_first=True)
                if e is False:
                    return False
                if e is True:
                    continue
                acc = e if acc is True else z3.And(acc, e)
            return acc
        ka, kb = self.kind(a), self.kind(b)
        if ka != kb and "sv" not in (ka, kb):
            return False
        if isinstance(a, SV) and isinstance(b, SV):
            if type(a) is type(b) and hasattr(a, "__eq__") and type(a).__eq__ is not object.__eq__:
                return a == b
            return a is b
        if isinstance(a, SV) or isinstance(b, SV):
            # objects compare by identity; symbolic *values* (numbers, strings, tuples, arrays,
            # opaque parameters in SV clothing) have no decided equality here: undecided, never False
            for x in (a, b):
                if isinstance(x, SV) and type(x).__name__ in VALUE_LIKE:
                    raise Unsupported("equality of %r and %r" % (a, b))
            return False
        return None

    def kind(self, v):
        if v is None:
            return "none"
        if is_bool(v):
            return "num"
        if is_num(v):
            return "num"
        if is_str(v):
            return "str"
        if isinstance(v, tuple):
            return "tuple"
        if isinstance(v, list):
            return "list"
        if isinstance(v, dict):
            return "dict"
        return "sv"

    def is_(self, a, b):
        if a is None or b is None:
            o = b if a is None else a
            if o is not None and hasattr(o, "sv_is_none"):
                return o.sv_is_none(self)
            return a is b
        if isinstance(a, bool) and isinstance(b, bool):
            return a == b
        r = self.domain.identity(self, a, b)
        if r is not MISSING:
            return r
        if isinstance(a, SV) and isinstance(b, SV):
            if isinstance(a, (ExternalRef, ClassRef, FuncRef, ExcClassRef)):
                return a == b
            return a is b
        if isinstance(a, SV) or isinstance(b, SV):
            return False
        if isinstance(a, tuple) and isinstance(b, tuple) and len(a) == 0 and len(b) == 0:
            return True
        if isinstance(a, (tuple, list, dict)) or isinstance(b, (tuple, list, dict)):
            return a is b
        raise Unsupported("identity test on %r, %r" % (a, b))

    # ---- expressions
    def eval(self, e, frame):
        m = getattr(self, "ex_" + type(e).__name__, None)
        if m is None:
            raise Unsupported("expression %s (line %d)" % (type(e).__name__,
                                                           getattr(e, "lineno", 0)))
        return m(e, frame)

    def ex_Constant(self, e, frame):
        v = e.value
        if isinstance(v, float):
            return Fraction(repr(v)) if v == v and abs(v) != float("inf") else Opaque("float")
        if isinstance(v, bytes):
            raise Unsupported("bytes constant")
        if v is Ellipsis:
            return Opaque("ellipsis")
        return v

    def ex_Name(self, e, frame):
        return self.lookup(e.id, frame)

    def ex_Attribute(self, e, frame):
        return self.getattr(self.eval(e.value, frame), e.attr)

    def ex_Tuple(self, e, frame):
        return tuple(self.eval_elts(e.elts, frame))

    def ex_List(self, e, frame):
        return list(self.eval_elts(e.elts, frame))

    def ex_Set(self, e, frame):
        return tuple(self.eval_elts(e.elts, frame))

    def eval_elts(self, elts, frame):
        out = []
        for x in elts:
            if isinstance(x, ast.Starred):
                out.extend(self.iterate(self.eval(x.value, frame)))
            else:
                out.append(self.eval(x, frame))
        return out

    def ex_Dict(self, e, frame):
        d = {}
        for k, v in zip(e.keys, e.values):
            if k is None:
                d.update(self.eval(v, frame))
            else:
                kk = self.eval(k, frame)
                try:
                    hash(kk)
                except TypeError:
                    raise Unsupported("unhashable dict key")
                d[kk] = self.eval(v, frame)
        return d

    def ex_JoinedStr(self, e, frame):
        # f-strings only build messages here; assumed total and pure
        return self.fresh_str("fstr")

    def ex_Lambda(self, e, frame):
        return Closure(e, frame)

    def ex_IfExp(self, e, frame):
        if self.truth(self.eval(e.test, frame)):
            return self.eval(e.body, frame)
        return self.eval(e.orelse, frame)

    def ex_NamedExpr(self, e, frame):
        v = self.eval(e.value, frame)
        self.assign(e.target, v, frame)
        return v

    def ex_BoolOp(self, e, frame):
        is_and = isinstance(e.op, ast.And)
        v = None
        for i, sub in enumerate(e.values):
            v = self.eval(sub, frame)
            if i == len(e.values) - 1:
                return v
            t = self.truth(v)
            if is_and and not t:
                return v
            if not is_and and t:
                return v
        return v

    def ex_UnaryOp(self, e, frame):
        v = self.eval(e.operand, frame)
        if isinstance(e.op, ast.Not):
            t = self.truth_term(v)
            return (not t) if isinstance(t, bool) else z3.Not(t)
        if isinstance(v, SV):
            return v.sv_unary(self, type(e.op).__name__)
        if isinstance(e.op, ast.USub):
            return -v if not isinstance(v, bool) else -int(v)
        if isinstance(e.op, ast.UAdd):
            return v
        raise Unsupported("unary op")

    def ex_BinOp(self, e, frame):
        a = self.eval(e.left, frame)
        b = self.eval(e.right, frame)
        return self.binop(AST_BINOP[type(e.op)], a, b)

    def ex_Compare(self, e, frame):
        left = self.eval(e.left, frame)
        result = True
        for op, rhs in zip(e.ops, e.comparators):
            right = self.eval(rhs, frame)
            if isinstance(op, ast.Is):
                r = self.is_(left, right)
            elif isinstance(op, ast.IsNot):
                r = self.not_(self.is_(left, right))
            elif isinstance(op, ast.In):
                r = self.contains(left, right)
            elif isinstance(op, ast.NotIn):
                r = self.not_(self.contains(left, right))
            else:
                r = self.compare(AST_CMP[type(op)], left, right)
            if len(e.ops) == 1:
                return r
            if not self.truth(r):
                return False
            left = right
        return result

    def ex_Call(self, e, frame):
        if isinstance(e.func, ast.Name) and e.func.id == "super" and not e.args:
            return self.domain.make_super(self, frame)
        f = self.eval(e.func, frame)
        args = []
        for a in e.args:
            if isinstance(a, ast.Starred):
                args.extend(self.iterate(self.eval(a.value, frame)))
            else:
                args.append(self.eval(a, frame))
        kwargs = {}
        for k in e.keywords:
            if k.arg is None:
                d = self.eval(k.value, frame)
                if not isinstance(d, dict):
                    raise Unsupported("** of non-dict")
                kwargs.update(d)
            else:
                kwargs[k.arg] = self.eval(k.value, frame)
        return self.call(f, args, kwargs)

    def ex_Subscript(self, e, frame):
        o = self.eval(e.value, frame)
        k = self.eval(e.slice, frame)
        return self.getitem(o, k)

    def ex_Slice(self, e, frame):
        lo = self.eval(e.lower, frame) if e.lower is not None else None
        hi = self.eval(e.upper, frame) if e.upper is not None else None
        st = self.eval(e.step, frame) if e.step is not None else None
        if any(is_z3(x) for x in (lo, hi, st)):
            return SymSlice(lo, hi, st)
        return slice(lo, hi, st)

    def ex_Starred(self, e, frame):
        raise Unsupported("starred expression")

    def _comprehension(self, gens, frame, emit):
        def rec(i, fr):
            if i == len(gens):
                emit(fr)
                return
            g = gens[i]
            for x in self.iterate(self.eval(g.iter, fr)):
                self.assign(g.target, x, fr)
                if all(self.truth(self.eval(c, fr)) for c in g.ifs):
                    rec(i + 1, fr)
        inner = Frame(frame.module, {}, func=frame.func, parent=frame)
        rec(0, inner)

    def ex_ListComp(self, e, frame):
        out = []
        self._comprehension(e.generators, frame, lambda fr: out.append(self.eval(e.elt, fr)))
        return out

    def ex_GeneratorExp(self, e, frame):
        return self.ex_ListComp(e, frame)

    def ex_SetComp(self, e, frame):
        return tuple(self.ex_ListComp(e, frame))

    def ex_DictComp(self, e, frame):
        out = {}

        def emit(fr):
            out[self.eval(e.key, fr)] = self.eval(e.value, fr)
        self._comprehension(e.generators, frame, emit)
        return out


class SymSlice(SV):
    def __init__(self, lo, hi, st):
        self.lo, self.hi, self.st = lo, hi, st
