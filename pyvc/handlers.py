"""Model of NumPy's private implementations for verifying unyt's __array_function__ handlers
(C06 forwarding by congruence, C07 unit bookkeeping, C01 merge guards, C18 frames).

np.X._implementation(*args, **kwargs) is an *uninterpreted* function: the only thing known about
its result is which routine produced it from which arguments (the `origin` record carried by the
result's buffer).  A handler computes "the same numbers NumPy computes on the bare data" iff the
value it returns originates from the routine named in its @implements decorator, applied to the
caller's arguments stripped of units -- that is the congruence argument of DESIGN.md 2.5.
"""
import inspect

import z3

from .core import (SV, SObj, ExternalRef, Intrinsic, Opaque, MISSING, Unsupported, PyRaise, is_z3,
                   is_num, const_float)
from . import unyt_domain as UD
from . import np_domain as N
from .unyt_domain import assumed

assumed("numpy-implementations", "np.X._implementation(...) is an uninterpreted function of its "
        "arguments (congruence only); out= targets receive the result through their buffer; it "
        "writes nothing else; signatures are read with inspect from the installed NumPy")


class SParam(SV):
    """an opaque, non-array parameter (axis, mode, bins, ...) passed through by the caller"""

    def __init__(self, name, concrete=MISSING):
        self.name = name
        self.none = None          # undecided / True / False
        self.true = None

    def __repr__(self):
        return "<param %s>" % self.name

    def sv_pyclass(self):
        return "object"

    def sv_is_none(self, it):
        if self.none is None:
            self.none = it.branch(it.fresh_bool("param_%s_is_none" % self.name))
        return self.none

    def sv_truth(self, it):
        if self.none is True:
            return False
        if self.true is None:
            self.true = it.branch(it.fresh_bool("param_%s_truthy" % self.name))
            if self.true:
                self.none = False
        return self.true

    def sv_getattr(self, it, name):
        if name in ("units", "unit_quantity", "is_Unit", "registry", "value", "ndim", "shape", "dtype"):
            raise PyRaise("AttributeError")
        raise Unsupported("attribute %s of opaque parameter %s" % (name, self.name))

    def sv_compare(self, it, op, other, reflected):
        if op == "==":
            return self is other
        if op == "!=":
            return self is not other
        return NotImplemented

    def sv_str(self, it):
        return it.fresh_str("paramstr")


class ImplRecord:
    def __init__(self, fname, args, kwargs, bound, error=None):
        self.fname = fname
        self.args = args
        self.kwargs = kwargs
        self.bound = bound            # NumPy parameter name -> value (None if binding failed)
        self.error = error

    def __repr__(self):
        return "<impl %s(%s)>" % (self.fname, ", ".join(sorted(self.bound or {})))


_SIGS = {}


def np_signature(fname):
    """inspect.signature of numpy.<...> (from the verifier interpreter's NumPy)"""
    if fname not in _SIGS:
        import numpy as np
        obj = np
        try:
            for part in fname.split(".")[1:]:
                obj = getattr(obj, part)
            _SIGS[fname] = inspect.signature(obj)
        except Exception:
            _SIGS[fname] = None
    return _SIGS[fname]


def bind_numpy(fname, args, kwargs):
    sig = np_signature(fname)
    if sig is None:
        return None, "no signature for %s" % fname
    try:
        ba = sig.bind(*args, **kwargs)
    except TypeError as e:
        return None, "arguments do not fit %s%s: %s" % (fname, sig, e)
    out = {}
    for name, v in ba.arguments.items():
        p = sig.parameters[name]
        if p.kind is p.VAR_POSITIONAL:
            for i, x in enumerate(v):
                out["*%d" % i] = x
        elif p.kind is p.VAR_KEYWORD:
            out.update(v)
        else:
            out[name] = v
    return out, None


class SImpl(N.SNd):
    """result (or a component of the result) of an uninterpreted NumPy implementation"""

    def __init__(self, it, record, path=()):
        label = "impl_%s%s" % (record.fname.split(".")[-1], "".join("_%d" % i for i in path))
        buf = N.fresh_buf(it, label)
        buf.origin = (record, tuple(path))
        scalar, size = N.fresh_shape(it, label)
        N.SNd.__init__(self, buf, scalar, size, label)
        self.record = record
        self.path = tuple(path)
        self._children = {}

    def component(self, it, i):
        if i not in self._children:
            self._children[i] = SImpl(it, self.record, self.path + (i,))
        return self._children[i]

    def sv_unpack(self, it, n):
        return [self.component(it, i) for i in range(n)]

    def sv_getitem(self, it, key):
        if isinstance(key, int):
            return self.component(it, key)
        raise Unsupported("indexing an implementation result with %r" % (key,))

    def sv_getattr(self, it, name):
        if name == "replace":          # array_repr: text post-processing
            return Intrinsic("str.replace", lambda it_, *a: it_.fresh_str("impl_text"))
        return N.SNd.sv_getattr(self, it, name)

    def sv_binop(self, it, op, other, reflected):
        if isinstance(other, (str,)) or (is_z3(other) and z3.is_string(other)):
            return it.fresh_str("impl_text")
        return N.SNd.sv_binop(self, it, op, other, reflected)

    def sv_contains(self, it, item):
        return it.fresh_bool("in_impl_text")

    def sv_truth(self, it):
        return it.branch(it.fresh_bool("impl_truth"))


def impl_call(it, fname, args, kwargs):
    bound, err = bind_numpy(fname, args, kwargs)
    if bound is None and np_signature(fname) is not None:
        it.raise_("TypeError")          # Python call semantics: the arguments do not bind
    rec = ImplRecord(fname, list(args), dict(kwargs), bound, err)
    o = (bound or {}).get("out")
    if o is not None and not N.is_array(o) and not isinstance(o, (tuple, list)):
        it.raise_("TypeError")          # NumPy: out must be an array (or tuple of arrays)
    it.ctx.events.append(("impl", rec))
    res = SImpl(it, rec)
    if fname in MIN_RANK_1:
        it.assume(z3.Not(UD.to_z3(res.scalar)))
    out = (bound or {}).get("out", kwargs.get("out"))
    if out is not None and N.is_array(out):
        if fname in MIN_RANK_1:       # NumPy refuses an out= of the wrong shape (ValueError)
            if it.branch(UD.to_z3(N.arr_scalar(out))):
                it.raise_("ValueError")
        b = N.arr_buf(out)
        b.elem = res.buf.elem
        b.origin = (rec, ())
        b.writes += 1
        it.ctx.events.append(("buf-write", b.bid))
        return N.SNd(b, N.arr_scalar(out), N.arr_size(out), "impl_out")
    # in-place routines (copyto, put, place, putmask, fill_diagonal, put_along_axis) write their
    # first argument
    if fname.split(".")[-1] in INPLACE and args and N.is_array(args[0]):
        b = N.arr_buf(args[0])
        b.elem = res.buf.elem
        b.origin = (rec, ())
        b.writes += 1
        it.ctx.events.append(("buf-write", b.bid))
        return None
    return res


try:
    import os as _os, sys as _sys
    _sys.path.insert(0, _os.path.dirname(_os.path.dirname(_os.path.abspath(__file__))))
    from spec.numpy_algebra import MIN_RANK_1
except Exception:          # pragma: no cover
    MIN_RANK_1 = set()
assumed("numpy-result-rank", "np.concatenate/stack/vstack/hstack/dstack/column_stack/block/outer/kron "
        "return arrays with at least one dimension")

INPLACE = {"copyto", "put", "place", "putmask", "fill_diagonal", "put_along_axis"}


def unit_times_data(it, unit, data, op="*"):
    """contract of Unit.__mul__ on data (verified separately as UnitMulData): a fresh array
    holding the same numbers, labelled unit (times the data's own unit if it has one);
    unyt_quantity for shape (), unyt_array otherwise; bool/str data is refused"""
    from .core import ClassRef
    if not N.is_array(data):
        t = N.scalar_term(it, data)
        if t is None:
            raise Unsupported("Unit * %r" % (data,))
        data = N._np_asarray(it, data)
    kind = UD.to_z3(N.arr_kind(data))
    if it.branch(kind == N.sv("b")):
        it.raise_("InvalidUnitOperation")
    b = N.arr_buf(data)
    nb = N.SBuf(b.elem, b.kind, b.itemsize)
    nb.origin = getattr(b, "origin", None)
    if N.is_unyt_array(data):
        units = it.binop("*", data.fields["units"], unit)
    else:
        units = unit
    cls = "unyt_quantity" if it.branch(UD.to_z3(N.arr_scalar(data))) else "unyt_array"
    o = SObj(UD.cls_of(it, cls), label="unit_times_data")
    o.fields["_buf"] = nb
    o.fields["_scalar"] = N.arr_scalar(data)
    o.fields["_size"] = N.arr_size(data)
    o.fields["units"] = units
    o.fields["name"] = None
    return o


def _np_prod_units(it, xs, *a, **k):
    """np.prod over a python list of Unit objects (convolve/correlate/tensordot handlers)"""
    xs = it.iterate(xs)
    if not xs or not all(isinstance(x, SObj) and x.cls.name == "Unit" for x in xs):
        raise Unsupported("np.prod of %r" % (xs,))
    r = xs[0]
    for x in xs[1:]:
        r = it.binop("*", r, x)
    return r


def install():
    dom = UD.UnytDomain
    orig_call = dom.call_external

    def call_external(self, it, ref, args, kwargs):
        if ref.name.endswith("._implementation"):
            return impl_call(it, ref.name[:-len("._implementation")], args, kwargs)
        if ref.name == "numpy.interp":
            return impl_call(it, "numpy.interp", args, kwargs)
        if ref.name == "numpy.prod" and args and isinstance(args[0], (list, tuple)):
            return _np_prod_units(it, *args, **kwargs)
        return orig_call(self, it, ref, args, kwargs)

    dom.call_external = call_external
    UD.EXTERNAL_ISINSTANCE["numbers.Number"] = lambda it, o: (is_num(o) or isinstance(o, bool))
    UD.DEFAULT_INLINE.update({
        "unyt._array_functions.get_units", "unyt._array_functions._validate_units_consistency",
        "unyt._array_functions._validate_units_consistency_v2",
        "unyt._array_functions.product_helper", "unyt._array_functions.diff_helper",
        "unyt._array_functions._array_comp_helper", "unyt._array_functions.clip_impl",
        "unyt._array_functions._linspace", "unyt._array_functions._histogram",
        "unyt._array_functions._histogram2d", "unyt._array_functions._histogramdd",
        "unyt._array_functions.cumprod", "unyt.unit_object.Unit.__rtruediv__",
    })


install()
