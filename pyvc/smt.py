"""SMT back-end helpers for pyvc.

Primary: z3 (python API, z3-solver 5.x in python3-vt).  Fallback for `unknown`:
/usr/bin/cvc5 on the SMT-LIB2 text of the same query (strings: --strings-exp).
Results: 'unsat' | 'sat' | 'unknown'.  Nothing here ever maps unknown to sat/unsat.
"""
import os
import subprocess
import tempfile
import time

import z3

Z3_TIMEOUT_MS = int(os.environ.get("PYVC_Z3_TIMEOUT_MS", "10000"))
CVC5_TIMEOUT_S = int(os.environ.get("PYVC_CVC5_TIMEOUT_S", "20"))
RETRY_FACTOR = int(os.environ.get("PYVC_Z3_RETRY_FACTOR", "12"))
CVC5 = "/usr/bin/cvc5"

STATS = {"z3_calls": 0, "z3_time": 0.0, "cvc5_calls": 0, "cvc5_time": 0.0,
         "cvc5_decided": 0}


def reset_stats():
    for k in STATS:
        STATS[k] = 0 if isinstance(STATS[k], int) else 0.0


def new_solver(timeout_ms=None):
    s = z3.Solver()
    s.set("timeout", timeout_ms or Z3_TIMEOUT_MS)
    return s


def _cvc5_check(solver, extra):
    """Ask cvc5 about solver's assertions + extra. Returns 'sat'/'unsat'/'unknown'."""
    if not os.path.exists(CVC5):
        return "unknown"
    s2 = z3.Solver()
    for a in solver.assertions():
        s2.add(a)
    for e in extra:
        s2.add(e)
    text = s2.to_smt2()
    logic = "(set-logic ALL)\n"
    t0 = time.time()
    try:
        with tempfile.NamedTemporaryFile("w", suffix=".smt2", delete=False) as f:
            f.write(logic + text)
            path = f.name
        out = subprocess.run(
            [CVC5, "--strings-exp", "--tlimit=%d" % (CVC5_TIMEOUT_S * 1000), path],
            capture_output=True, text=True, timeout=CVC5_TIMEOUT_S + 5)
        res = out.stdout.strip().splitlines()
        r = res[0].strip() if res else "unknown"
    except Exception:
        r = "unknown"
    finally:
        try:
            os.unlink(path)
        except Exception:
            pass
    STATS["cvc5_calls"] += 1
    STATS["cvc5_time"] += time.time() - t0
    if r in ("sat", "unsat"):
        STATS["cvc5_decided"] += 1
        return r
    return "unknown"


def check(solver, *extra, use_cvc5=True):
    """Check satisfiability of solver ∧ extra. Returns (verdict, model_or_None, backend)."""
    t0 = time.time()
    r = solver.check(*extra)
    STATS["z3_calls"] += 1
    STATS["z3_time"] += time.time() - t0
    if r == z3.sat:
        return "sat", solver.model(), "z3"
    if r == z3.unsat:
        return "unsat", None, "z3"
    if use_cvc5:
        v = _cvc5_check(solver, extra)
        if v != "unknown":
            return v, None, "cvc5"
    else:
        return "unknown", None, "z3"
    # last resort: the same query again in fresh z3 instances with longer budgets -- first with
    # the default seed (a query that is easy in isolation may just have been starved of CPU),
    # then with other seeds (z3's nonlinear / string search is not stable across seeds).
    # Verdicts must not flip to undecided just because all cores are busy.
    for seed, factor in ((None, RETRY_FACTOR // 2), (7, RETRY_FACTOR // 2), (23, RETRY_FACTOR // 2)):
        t0 = time.time()
        s2 = z3.Solver()
        s2.set("timeout", Z3_TIMEOUT_MS * max(1, factor))
        if seed is not None:
            s2.set("random_seed", seed)
        for a in solver.assertions():
            s2.add(a)
        r = s2.check(*extra)
        STATS["z3_calls"] += 1
        STATS["z3_time"] += time.time() - t0
        STATS["z3_retries"] = STATS.get("z3_retries", 0) + 1
        if r == z3.sat:
            return "sat", s2.model(), "z3-retry"
        if r == z3.unsat:
            return "unsat", None, "z3-retry"
    return "unknown", None, "z3"


def model_value(model, term):
    """Evaluate term in model with completion; return python value where possible."""
    v = model.eval(term, model_completion=True)
    return z3_to_py(v)


def z3_to_py(v):
    if z3.is_true(v):
        return True
    if z3.is_false(v):
        return False
    if z3.is_int_value(v):
        return v.as_long()
    if z3.is_rational_value(v):
        from fractions import Fraction
        return Fraction(v.numerator_as_long(), v.denominator_as_long())
    if z3.is_algebraic_value(v):
        return float(v.approx(20).as_decimal(20).rstrip("?"))
    if z3.is_string_value(v):
        return v.as_string()
    return str(v)
