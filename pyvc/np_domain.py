"""Array abstraction and assumed NumPy contracts (DESIGN.md 2.4 / 2.5).

An ndarray is abstracted to
    buf      a mutable buffer object shared by all views:  one arbitrary element `elem`
             (element-wise lifting: NumPy applies the same scalar function to every element),
             dtype (kind in {b,u,i,f,c}, itemsize), identity
    scalar   shape == ()            size   number of elements
A unyt_array / unyt_quantity is an SObj of the real class with the same hidden fields plus
`units` and `name`.  NumPy routines are assumed contracts over this abstraction; every one
used is listed in ASSUMED_NP (reported in evidence).
"""
from fractions import Fraction

import z3

from .core import (SV, SObj, ClassRef, ExternalRef, Intrinsic, Opaque, MISSING, Unsupported,
                   PyRaise, is_z3, is_num, is_str, is_bool, is_floaty, to_z3, to_real,
                   const_float)
from . import unyt_domain as UD
from .unyt_domain import assumed

KINDS = ["b", "u", "i", "f", "c"]
FLOAT_SIZES = (2, 4, 8, 16)
COMPLEX_SIZES = (8, 16, 32)
INT_SIZES = (1, 2, 4, 8)

assumed("numpy-elementwise", "NumPy element-wise operations apply one scalar function to every "
        "element (broadcasting); arrays are abstracted to one arbitrary element, a dtype and a "
        "buffer identity; view/asarray/.d share the buffer, astype/np.array/arithmetic allocate")
assumed("numpy-dtype", "np.dtype(kind+str(n)) exists exactly for f2,f4,f8,f16 / c8,c16,c32 / "
        "i|u 1,2,4,8 / b1 and raises TypeError otherwise; casting to a float or complex dtype "
        "preserves the (real-modelled) value; int*python-float -> float64, fN*python-float -> fN")


class SBuf:
    _n = 0

    def __init__(self, elem, kind, itemsize):
        self.elem = elem
        self.kind = kind            # str or z3 String
        self.itemsize = itemsize    # int or z3 Int
        SBuf._n += 1
        self.bid = SBuf._n
        self.writes = 0

    def copy(self):
        return SBuf(self.elem, self.kind, self.itemsize)


class SDtype(SV):
    def __init__(self, kind, itemsize):
        self.kind = kind
        self.itemsize = itemsize

    def sv_pyclass(self):
        return "dtype"

    def sv_getattr(self, it, name):
        if name == "kind":
            return self.kind
        if name == "itemsize":
            return self.itemsize
        if name == "char":
            # one-character type code; the lattice holds numeric dtypes only, whose codes are none
            # of the string / object / void codes the package tests for ("S", "a", "U", "O", "V")
            c = z3.String(it.ctx.fresh_name("dtype_char"))
            it.assume(z3.And(z3.Length(c) == 1, *[c != z3.StringVal(x) for x in "SaUOVMm"]))
            return c
        if name == "type":
            return Intrinsic("dtype.type", lambda it_, x: const_float(x))
        raise Unsupported("dtype.%s" % name)

    def sv_compare(self, it, op, other, reflected):
        if isinstance(other, SDtype):
            e = z3.And(to_z3(self.kind) == to_z3(other.kind),
                       to_z3(self.itemsize) == to_z3(other.itemsize))
            return e if op == "==" else z3.Not(e)
        return NotImplemented

    def sv_str(self, it):
        return it.fresh_str("dtypestr")


class SDtStr(SV):
    """the string kind + str(itemsize), e.g. "f" + str(dsize)"""

    def __init__(self, kind, size):
        self.kind = kind
        self.size = size

    def sv_pyclass(self):
        return "str"

    def sv_str(self, it):
        return self


def valid_dtype(kind, size):
    k, n = to_z3(kind), to_z3(size)
    sv = z3.StringVal
    return z3.Or(z3.And(k == sv("f"), z3.Or(*[n == s for s in FLOAT_SIZES])),
                 z3.And(k == sv("c"), z3.Or(*[n == s for s in COMPLEX_SIZES])),
                 z3.And(z3.Or(k == sv("i"), k == sv("u")), z3.Or(*[n == s for s in INT_SIZES])),
                 z3.And(k == sv("b"), n == 1))


def np_dtype(it, spec):
    if isinstance(spec, SDtype):
        return spec
    if isinstance(spec, SDtStr):
        if not it.branch(valid_dtype(spec.kind, spec.size)):
            it.raise_("TypeError")
        return SDtype(spec.kind, spec.size)
    if isinstance(spec, str):
        table = {"bool": ("b", 1), "float": ("f", 8), "float64": ("f", 8), "int": ("i", 8),
                 "float32": ("f", 4), "complex": ("c", 16)}
        if spec in table:
            return SDtype(*table[spec])
        if spec[:1] in KINDS and spec[1:].isdigit():
            return np_dtype(it, SDtStr(spec[0], int(spec[1:])))
    if isinstance(spec, ExternalRef) and spec.name in NUMPY_SCALAR_TYPES:
        return SDtype(*NUMPY_SCALAR_TYPES[spec.name])         # np.float64 etc. used as a dtype
    raise Unsupported("np.dtype(%r)" % (spec,))


NUMPY_SCALAR_TYPES = {"numpy.float64": ("f", 8), "numpy.float32": ("f", 4), "numpy.float16": ("f", 2),
                      "numpy.complex128": ("c", 16), "numpy.complex64": ("c", 8), "numpy.int64": ("i", 8),
                      "numpy.int32": ("i", 4), "numpy.bool_": ("b", 1)}


class SNd(SV):
    """a plain numpy.ndarray (or numpy scalar)"""

    def __init__(self, buf, scalar, size, label="nd"):
        self.buf = buf
        self.scalar = scalar
        self.size = size
        self.label = label
        # the dtype this array *object* interprets the buffer with (a view keeps its own dtype
        # when another view of the same memory is re-typed in place)
        self.vkind = buf.kind
        self.vsize = buf.itemsize

    def __repr__(self):
        return "<ndarray %s buf%d>" % (self.label, self.buf.bid)

    def sv_pyclass(self):
        return "ndarray"

    def sv_type(self, it):
        return ExternalRef("numpy.ndarray")

    def sv_getattr(self, it, name):
        h = ARRAY_ATTR.get(name)
        if h is not None:
            return h(it, self)
        if name in ("units", "name", "registry", "is_Unit", "value", "in_base", "in_units"):
            raise PyRaise("AttributeError")
        raise Unsupported("ndarray.%s" % name)

    def sv_setattr(self, it, name, value):
        if not array_setattr(it, self, name, value):
            raise Unsupported("ndarray.%s = ..." % name)

    def sv_binop(self, it, op, other, reflected):
        return array_binop(it, self, op, other, reflected)

    def sv_compare(self, it, op, other, reflected):
        return array_compare(it, self, op, other)

    def sv_unary(self, it, op):
        if op == "USub":
            return new_array(it, -arr_elem(self), arr_kind(self), arr_itemsize(self), self)
        raise Unsupported("unary %s on ndarray" % op)

    def sv_float(self, it):
        return to_real(arr_elem(self))

    def sv_truth(self, it):
        # bool(array): the element for a one-element array, ValueError otherwise
        if it.branch(to_z3(self.size) == 1):
            return to_real(arr_elem(self)) != 0
        it.raise_("ValueError")

    def sv_getitem(self, it, key):
        return array_getitem(it, self, key)

    def sv_setitem(self, it, key, value):
        return array_setitem(it, self, key, value)

    def sv_str(self, it):
        return it.fresh_str("arrstr")


# --------------------------------------------------------------------------- accessors
def is_unyt_array(v):
    return isinstance(v, SObj) and v.cls.name in ("unyt_array", "unyt_quantity") or (
        isinstance(v, SObj) and "_buf" in v.fields)


def is_array(v):
    return isinstance(v, SNd) or is_unyt_array(v)


def arr_buf(a):
    return a.buf if isinstance(a, SNd) else a.fields["_buf"]


def arr_elem(a):
    return arr_buf(a).elem


def read_elem(it, a):
    """the element as *read through array object a*: if a is a view whose dtype no longer is
    the dtype the buffer's contents were written with (another view was re-typed in place),
    the bytes are reinterpreted: an unrelated value"""
    b = arr_buf(a)
    if isinstance(a, SNd) and (a.vkind is not b.kind or a.vsize is not b.itemsize):
        same = z3.And(to_z3(a.vkind) == to_z3(b.kind), to_z3(a.vsize) == to_z3(b.itemsize))
        same = z3.simplify(same)
        if z3.is_true(same):
            return b.elem
        g = z3.Real(it.ctx.fresh_name("reinterpreted_bytes"))
        return z3.If(same, to_real(b.elem), g)
    return b.elem


def arr_kind(a):
    return arr_buf(a).kind


def arr_itemsize(a):
    return arr_buf(a).itemsize


def arr_scalar(a):
    return a.scalar if isinstance(a, SNd) else a.fields["_scalar"]


def arr_size(a):
    return a.size if isinstance(a, SNd) else a.fields["_size"]


def fresh_buf(it, label="buf", kind=None, itemsize=None):
    e = z3.Real(it.ctx.fresh_name(label + "_elem"))
    k = kind if kind is not None else z3.String(it.ctx.fresh_name(label + "_kind"))
    n = itemsize if itemsize is not None else z3.Int(it.ctx.fresh_name(label + "_itemsize"))
    if kind is None or itemsize is None:
        it.assume(valid_dtype(k, n))
    return SBuf(e, k, n)


def fresh_shape(it, label="a"):
    scalar = z3.Bool(it.ctx.fresh_name(label + "_is0d"))
    size = z3.Int(it.ctx.fresh_name(label + "_size"))
    it.assume(size >= 0)
    it.assume(z3.Implies(scalar, size == 1))        # NumPy fact: shape == () => size == 1
    return scalar, size


def make_ndarray(it, label="nd", kind=None, itemsize=None):
    scalar, size = fresh_shape(it, label)
    return SNd(fresh_buf(it, label, kind, itemsize), scalar, size, label)


def make_unyt_array(it, label="arr", units=None, cls="unyt_array", kind=None, itemsize=None,
                    buf=None):
    a = SObj(UD.cls_of(it, cls), label=label)
    a.fields["_buf"] = buf or fresh_buf(it, label, kind, itemsize)
    scalar, size = fresh_shape(it, label)
    if cls == "unyt_quantity":
        it.assume(size == 1)
    a.fields["_scalar"] = scalar
    a.fields["_size"] = size
    a.fields["units"] = units if units is not None else UD.make_unit(it, label + "_u")
    a.fields["name"] = Opaque(label + "_name")
    return a


def new_array(it, elem, kind, itemsize, like, label="res"):
    """a freshly allocated ndarray with the shape of `like`"""
    b = SBuf(elem, kind, itemsize)
    return SNd(b, arr_scalar(like), arr_size(like), label)


def track_array(it, label, a):
    it.ctx.track(label + ".elem", arr_elem(a))
    if is_z3(arr_kind(a)):
        it.ctx.track(label + ".kind", arr_kind(a))
    if is_z3(arr_itemsize(a)):
        it.ctx.track(label + ".itemsize", arr_itemsize(a))
    if is_z3(arr_scalar(a)):
        it.ctx.track(label + ".is0d", arr_scalar(a))
    if is_z3(arr_size(a)):
        it.ctx.track(label + ".size", arr_size(a))


# --------------------------------------------------------------------------- dtype algebra
def sv(s):
    return z3.StringVal(s)


def is_int_kind(kind):
    k = to_z3(kind)
    return z3.Or(k == sv("i"), k == sv("u"), k == sv("b"))


def promote_with_pyfloat(kind, size):
    """dtype of  array(kind,size) <op> python float  (NumPy 2 weak-scalar promotion)"""
    k, n = to_z3(kind), to_z3(size)
    rk = z3.If(k == sv("c"), sv("c"), sv("f"))
    rn = z3.If(is_int_kind(k), z3.IntVal(8), n)
    return rk, rn


def promote_arrays(k0, n0, k1, n1):
    """result dtype of a binary ufunc on two arrays: abstracted to the wider float/complex"""
    k0, n0, k1, n1 = to_z3(k0), to_z3(n0), to_z3(k1), to_z3(n1)
    cplx = z3.Or(k0 == sv("c"), k1 == sv("c"))
    flt = z3.Or(k0 == sv("f"), k1 == sv("f"))
    rk = z3.If(cplx, sv("c"), z3.If(flt, sv("f"), z3.If(z3.Or(k0 == sv("i"), k1 == sv("i")),
                                                         sv("i"), k0)))
    rn = z3.If(n0 >= n1, n0, n1)
    return rk, rn


def scalar_term(it, v):
    """real term of a python/numpy scalar operand"""
    v = const_float(v)
    if isinstance(v, bool):
        return z3.RealVal(int(v))
    if is_num(v):
        return to_real(v)
    if isinstance(v, UD.SRat):
        return to_real(v.value)
    return None


# --------------------------------------------------------------------------- attribute handlers
def _dtype(it, a):
    return SDtype(arr_kind(a), arr_itemsize(a))


def _shape(it, a):
    return SShape(arr_scalar(a), arr_size(a), owner=shape_owner(a))


_OWNERS = {}


def shape_owner(a):
    """integer token of the array object whose shape is meant (views may have other shapes)"""
    while getattr(a, "shape_like", None) is not None:
        a = a.shape_like            # np.asarray(x) / x.view(np.ndarray): another object, the same shape
    return _OWNERS.setdefault(id(a), len(_OWNERS) + 1)


def same_shape_view(a, like):
    a.shape_like = like
    return a


dimlen = z3.Function("np_dimlen", z3.IntSort(), z3.IntSort(), z3.IntSort())
ndim_of = z3.Function("np_ndim", z3.IntSort(), z3.IntSort())


def dim_length(it, owner, k):
    """a.shape[k] as a term: consistent across reads; negative k counts from the end"""
    o = z3.IntVal(owner)
    n = ndim_of(o)
    t = dimlen(o, z3.IntVal(k))
    it.assume(t >= 0)
    it.assume(n >= 0)
    if k < 0:
        it.assume(z3.Implies(n + k >= 0, t == dimlen(o, n + k)))
    return t


class SShape(SV):
    def __init__(self, scalar, size, owner=None):
        self.scalar = scalar
        self.size = size
        self.owner = owner

    def sv_pyclass(self):
        return "tuple"

    def sv_truth(self, it):
        # a shape tuple is falsy exactly for 0-d arrays
        s_ = to_z3(self.scalar)
        return z3.Not(s_) if is_z3(s_) else not s_

    def sv_compare(self, it, op, other, reflected):
        if isinstance(other, tuple) and len(other) == 0:
            return self.scalar if op == "==" else it.not_(self.scalar)
        if isinstance(other, SShape):
            e = it.fresh_bool("shape_eq")
            # equal shapes have equal rank and size
            it.assume(z3.Implies(e, z3.And(to_z3(self.scalar) == to_z3(other.scalar),
                                           to_z3(self.size) == to_z3(other.size))))
            it.assume(z3.Implies(z3.And(to_z3(self.scalar), to_z3(other.scalar)), e))
            return e if op == "==" else z3.Not(e)
        return NotImplemented

    def sv_getitem(self, it, key):
        if self.owner is not None and isinstance(key, int):
            n = ndim_of(z3.IntVal(self.owner))
            it.assume((n == 0) == to_z3(self.scalar))
            return dim_length(it, self.owner, key)
        return it.fresh_int("dimlen")

    def sv_len(self, it):
        if self.owner is not None:
            n = ndim_of(z3.IntVal(self.owner))
        else:
            n = it.fresh_int("ndim")
        it.assume(n >= 0)
        it.assume((n == 0) == to_z3(self.scalar))
        return n


def _view(it, a):
    def view(it_, *args, **kw):
        typ = kw.get("type", args[0] if args else None)
        dt = kw.get("dtype")
        if dt is not None and not isinstance(dt, SDtype):
            if isinstance(dt, ClassRef) or isinstance(dt, ExternalRef):
                typ, dt = dt, None
            else:
                raise Unsupported("view(dtype=%r)" % (dt,))
        if dt is not None:
            same = z3.And(to_z3(dt.kind) == to_z3(arr_kind(a)),
                          to_z3(dt.itemsize) == to_z3(arr_itemsize(a)))
            if not it_.branch(same):
                raise Unsupported("reinterpreting view with a different dtype")
        if isinstance(typ, ExternalRef) and typ.name == "numpy.ndarray":
            return same_shape_view(SNd(arr_buf(a), arr_scalar(a), arr_size(a), "view"), a)
        if isinstance(typ, ClassRef):
            o = SObj(typ.ci, label="view_" + typ.ci.name)
            o.fields["_buf"] = arr_buf(a)
            o.fields["_scalar"] = arr_scalar(a)
            o.fields["_size"] = arr_size(a)
            # __array_finalize__: units/name copied from the template, NULL_UNIT otherwise
            o.fields["units"] = a.fields["units"] if is_unyt_array(a) else it_.domain.null_unit(it_)
            o.fields["name"] = a.fields.get("name") if is_unyt_array(a) else None
            return o
        if typ is None:
            return SNd(arr_buf(a), arr_scalar(a), arr_size(a), "view") if isinstance(a, SNd) \
                else _view(it_, a)(it_, ClassRef(a.cls))
        raise Unsupported("view(%r)" % (typ,))
    return Intrinsic("ndarray.view", view)


def _astype(it, a):
    def astype(it_, dt, **kw):
        d = np_dtype(it_, dt)
        r = cast_array(it_, a, d)
        if is_unyt_array(a):
            # ndarray.astype keeps the subclass (subok=True); __array_finalize__ copies units, name
            return _rewrap(it_, r, a)
        return r
    return Intrinsic("ndarray.astype", astype)


trunc_fn = z3.Function("int_cast", z3.RealSort(), z3.RealSort())


def cast_array(it, a, d, label="cast"):
    """a.astype(d) / np.asarray(a, dtype=d): value preserved into float/complex targets,
    integer targets truncate (uninterpreted int_cast)"""
    k = to_z3(d.kind)
    elem = to_real(arr_elem(a))
    lossless = z3.Or(k == sv("f"), k == sv("c"), is_int_kind(arr_kind(a)))
    new_elem = z3.If(lossless, elem, trunc_fn(elem))
    # complex -> float drops the imaginary part: flagged as a ghost event
    drop = z3.And(to_z3(arr_kind(a)) == sv("c"), k != sv("c"))
    it.ctx.events.append(("cast", a, d, drop))
    return new_array(it, new_elem, d.kind, d.itemsize, a, label)


ARRAY_ATTR = {
    "dtype": _dtype, "shape": _shape, "view": _view, "astype": _astype,
    "size": lambda it, a: arr_size(a),
    "ndim": lambda it, a: _shape(it, a).sv_len(it),
    "copy": lambda it, a: Intrinsic("ndarray.copy", lambda it_, *x, **k: new_array(
        it_, arr_elem(a), arr_kind(a), arr_itemsize(a), a, "copy")),
    "__array_finalize__": lambda it, a: Intrinsic("finalize", lambda it_, *x: None),
}


def array_setattr(it, a, name, value):
    if name == "dtype":
        d = np_dtype(it, value)
        b = arr_buf(a)
        same = z3.And(to_z3(d.kind) == to_z3(b.kind), to_z3(d.itemsize) == to_z3(b.itemsize))
        # in-place dtype reinterpretation needs equal item size; the bytes are reinterpreted,
        # i.e. the element values become unrelated garbage until overwritten
        if not it.branch(to_z3(d.itemsize) == to_z3(b.itemsize)):
            it.raise_("ValueError")
        if not it.branch(same):
            b.elem = z3.Real(it.ctx.fresh_name("reinterpreted_bytes"))
        b.kind, b.itemsize = d.kind, d.itemsize
        if isinstance(a, SNd):
            a.vkind, a.vsize = d.kind, d.itemsize
        b.writes += 1
        it.ctx.events.append(("dtype-set", a))
        return True
    return False


# --------------------------------------------------------------------------- arithmetic
UFN = {}


def ufn(name, arity=2):
    key = (name, arity)
    if key not in UFN:
        UFN[key] = z3.Function("np_" + name, *([z3.RealSort()] * arity), z3.RealSort())
    return UFN[key]


def elem_op(it, op, x, y):
    x, y = to_real(x), to_real(y)
    if op == "+":
        return x + y
    if op == "-":
        return x - y
    if op == "*":
        return x * y
    if op == "/":
        return x / y            # NumPy: division by zero gives inf/nan, no exception (outside model)
    if op == "**":
        return UD.rpow(x, y)
    return ufn(op)(x, y)


def array_binop(it, a, op, other, reflected):
    other = const_float(other)
    if op not in ("+", "-", "*", "/", "**", "//", "%"):
        return NotImplemented
    if is_array(other):
        if is_unyt_array(other) or is_unyt_array(a):
            return NotImplemented
        x, y = (other, a) if reflected else (a, other)
        rk, rn = promote_arrays(arr_kind(x), arr_itemsize(x), arr_kind(y), arr_itemsize(y))
        if op == "/":
            rk = z3.If(rk == sv("c"), sv("c"), sv("f"))
        return new_array(it, elem_op(it, op, arr_elem(x), arr_elem(y)), rk, rn, a, "binop")
    s = scalar_term(it, other)
    if s is None:
        return NotImplemented
    if is_floaty(other) or op == "/":
        rk, rn = promote_with_pyfloat(arr_kind(a), arr_itemsize(a))
    else:
        rk, rn = arr_kind(a), arr_itemsize(a)
    e = elem_op(it, op, s, arr_elem(a)) if reflected else elem_op(it, op, arr_elem(a), s)
    res = new_array(it, e, rk, rn, a, "binop")
    if op == "*" and isinstance(other, int) and not isinstance(other, bool) and other == 1:
        # array * 1: a copy holding exactly the same numbers (ghost provenance is kept)
        for ghost in ("origin", "converted_from"):
            if getattr(arr_buf(a), ghost, None) is not None:
                setattr(arr_buf(res), ghost, getattr(arr_buf(a), ghost))
    return res


def array_inplace(it, op, a, v):
    """a op= v  on an ndarray: writes through the buffer, dtype unchanged.  NumPy refuses
    (UFuncTypeError) to write a float result into an integer buffer."""
    v = const_float(v)
    s = arr_elem(v) if is_array(v) else scalar_term(it, v)
    if s is None:
        return MISSING
    b = arr_buf(a)
    floaty = is_floaty(v) or (is_array(v) and True) or op == "/"
    if (is_floaty(v) or op == "/") and it.branch(is_int_kind(b.kind)):
        it.raise_("TypeError")
    b.elem = elem_op(it, op, b.elem, s)
    b.writes += 1
    it.ctx.events.append(("buf-write", b.bid))
    return a


def array_compare(it, a, op, other):
    other = const_float(other)
    s = arr_elem(other) if is_array(other) else scalar_term(it, other)
    if s is None:
        return NotImplemented
    x, y = to_real(arr_elem(a)), to_real(s)
    import operator as _o
    e = {"==": _o.eq, "!=": _o.ne, "<": _o.lt, "<=": _o.le, ">": _o.gt, ">=": _o.ge}[op](x, y)
    return SBoolArr(e, a)


class SBoolArr(SV):
    """boolean array: one arbitrary element"""

    def __init__(self, elem, like):
        self.elem = elem
        self.like = like

    def sv_pyclass(self):
        return "ndarray"

    def sv_truth(self, it):
        raise Unsupported("truth value of a boolean array")


def array_getitem(it, a, key):
    raise Unsupported("array indexing")


def array_setitem(it, a, key, value):
    raise Unsupported("array item assignment")


# --------------------------------------------------------------------------- numpy functions
ASSUMED_NP = {}


def np_fn(name, text):
    def deco(f):
        ASSUMED_NP[name] = text
        UD.EXTERNAL_CALLS[name] = f
        return f
    return deco


@np_fn("numpy.dtype", "see numpy-dtype")
def _np_dtype(it, spec):
    return np_dtype(it, spec)


@np_fn("numpy.asarray", "np.asarray(x): the same buffer for an ndarray (subclass stripped), a "
       "new array holding the value for a scalar; with dtype= a cast copy when the dtype differs")
def _np_asarray(it, x, dtype=None, **kw):
    x = const_float(x)
    for k_, v_ in kw.items():
        if k_ in ("order", "like") and v_ is None:
            continue
        if k_ == "order" and is_array(x):
            # a memory layout is requested: NumPy copies unless the data already has it
            if it.branch(it.fresh_bool("asarray_has_requested_layout")):
                continue
            d0 = np_dtype(it, dtype) if dtype is not None else SDtype(arr_kind(x), arr_itemsize(x))
            return cast_array(it, x, d0, "asarray_relayout")
        raise Unsupported("np.asarray keyword %s" % k_)
    if is_array(x):
        if dtype is None:
            return same_shape_view(SNd(arr_buf(x), arr_scalar(x), arr_size(x), "asarray"), x)
        d = np_dtype(it, dtype)
        same = z3.And(to_z3(d.kind) == to_z3(arr_kind(x)),
                      to_z3(d.itemsize) == to_z3(arr_itemsize(x)))
        if it.branch(same):
            return same_shape_view(SNd(arr_buf(x), arr_scalar(x), arr_size(x), "asarray"), x)
        return cast_array(it, x, d, "asarray")
    s = scalar_term(it, x)
    if s is not None:
        kind = "f" if is_floaty(x) else ("b" if isinstance(x, bool) else "i")
        b = SBuf(s, kind, 8 if kind != "b" else 1)
        arr = SNd(b, True, 1, "asarray_scalar")
        if dtype is not None:
            return cast_array(it, arr, np_dtype(it, dtype), "asarray")
        return arr
    if isinstance(x, (list, tuple)):
        return stack_sequence(it, x, dtype)
    raise Unsupported("np.asarray(%r)" % (x,))


assumed("numpy-array-of-sequence", "np.array / np.asarray of a python list or tuple of numbers and 0-d arrays "
        "(quantities included: their units are not looked at by NumPy): a fresh 1-d ndarray with one element "
        "per member holding that member's number; the arbitrary element of the abstraction is the number of "
        "an arbitrarily chosen member (ghost field `member` of the buffer says which)")


def stack_sequence(it, xs, dtype=None):
    if dtype is not None or len(xs) == 0 or len(xs) > 4:
        raise Unsupported("np.array of a python sequence (dtype= / empty / long)")
    elems = []
    for m in xs:
        m = const_float(m)
        if is_array(m):
            if not it.branch(to_z3(arr_scalar(m))):
                raise Unsupported("np.array of a sequence with a member that is not 0-d")
            elems.append(read_elem(it, m))
        else:
            t = scalar_term(it, m)
            if t is None:
                raise Unsupported("np.array of a sequence with member %r" % (m,))
            elems.append(t)
    pick = 0
    for i in range(1, len(xs)):
        if it.branch(it.fresh_bool("arbitrary_element_is_member_%d" % i)):
            pick = i
            break
    k = z3.String(it.ctx.fresh_name("stacked_kind"))
    n = it.fresh_int("stacked_itemsize")
    it.assume(valid_dtype(k, n))
    b = SBuf(to_real(elems[pick]), k, n)
    b.member = (pick, xs[pick])
    return SNd(b, False, len(xs), "stacked")


@np_fn("numpy.result_type", "np.result_type(d, np.float64) for a float/complex dtype d: the wider of the two, "
       "complex if d is complex (NumPy promotion)")
def _np_result_type(it, *args):
    if len(args) != 2 or not (isinstance(args[1], ExternalRef) and args[1].name == "numpy.float64"):
        raise Unsupported("np.result_type%r" % (args,))
    d = np_dtype(it, args[0])
    k, n = to_z3(d.kind), to_z3(d.itemsize)
    if it.branch(z3.Not(z3.Or(k == sv("f"), k == sv("c")))):
        raise Unsupported("np.result_type of a non-float dtype")
    return SDtype(z3.If(k == sv("c"), sv("c"), sv("f")),
                  z3.If(k == sv("c"), z3.IntVal(16), z3.If(n > 8, n, z3.IntVal(8))))


@np_fn("numpy.array", "np.array(x): always a fresh buffer holding the same values "
       "(subok=True keeps the subclass, units copied by __array_finalize__)")
def _np_array(it, x, *a, **kw):
    x = const_float(x)
    kw = dict(kw)
    if a:
        if len(a) > 1 or "dtype" in kw:
            raise Unsupported("np.array positional arguments")
        kw["dtype"] = a[0]
    for k_ in kw:
        if k_ not in ("dtype", "copy", "subok"):
            raise Unsupported("np.array keyword %s" % k_)
    if is_array(x) and "copy" in kw and (kw["copy"] is None or kw["copy"] is False):
        # copy=None (copy only if needed) / copy=False: np.asarray's sharing semantics
        res = _np_asarray(it, x, dtype=kw.get("dtype"))
        if kw.get("subok") and is_unyt_array(x):
            return _rewrap(it, res, x)
        return res
    if is_array(x):
        if kw.get("dtype") is not None:
            res = cast_array(it, x, np_dtype(it, kw["dtype"]), "array_copy")
        else:
            res = new_array(it, arr_elem(x), arr_kind(x), arr_itemsize(x), x, "array_copy")
        if kw.get("subok") and is_unyt_array(x):
            return _view(it, res)(it, ClassRef(x.cls)) if False else _rewrap(it, res, x)
        return res
    if isinstance(x, (list, tuple)):
        return stack_sequence(it, x, kw.get("dtype"))
    return _np_asarray(it, x, **{k: v for k, v in kw.items() if k == "dtype"})


def _rewrap(it, nd, like):
    o = SObj(like.cls, label="copy_" + like.cls.name)
    o.fields["_buf"] = nd.buf
    o.fields["_scalar"] = nd.scalar
    o.fields["_size"] = nd.size
    o.fields["units"] = like.fields["units"]
    o.fields["name"] = like.fields.get("name")
    return o


@np_fn("numpy.zeros_like", "np.zeros_like(x, dtype=...): fresh array of zeros with x's shape")
def _np_zeros_like(it, x, dtype=None, **kw):
    return _filled_like(it, x, 0, dtype)


@np_fn("numpy.ones_like", "np.ones_like(x, dtype=...): fresh array of ones with x's shape")
def _np_ones_like(it, x, dtype=None, **kw):
    return _filled_like(it, x, 1, dtype)


def _filled_like(it, x, v, dtype):
    if not is_array(x):
        raise Unsupported("zeros_like/ones_like of a non-array")
    if dtype is None:
        k, n = arr_kind(x), arr_itemsize(x)
    elif isinstance(dtype, Intrinsic) and dtype.name == "bool":
        k, n = "b", 1
    else:
        d = np_dtype(it, dtype)
        k, n = d.kind, d.itemsize
    return new_array(it, z3.RealVal(v), k, n, x, "filled")


@np_fn("numpy.copy", "np.copy(x): fresh buffer, same values, plain ndarray")
def _np_copy(it, x, *a, **kw):
    return new_array(it, arr_elem(x), arr_kind(x), arr_itemsize(x), x, "np_copy")


@np_fn("numpy.abs", "np.abs element-wise")
def _np_abs(it, x):
    e = to_real(arr_elem(x))
    return new_array(it, z3.If(e >= 0, e, -e), arr_kind(x), arr_itemsize(x), x, "abs")


any_large = z3.Function("np_any", z3.BoolSort(), z3.IntSort(), z3.BoolSort())


@np_fn("numpy.any", "np.any(cond): true if cond holds for some element; abstracted: implied "
       "by... nothing, and implies nothing about the arbitrary element except through the "
       "ghost predicate any(cond-of-the-arbitrary-element, buffer)")
def _np_any(it, x, *a, **kw):
    if isinstance(x, SBoolArr):
        r = it.fresh_bool("np_any")
        # if the arbitrary element satisfies the condition then any() is true
        it.assume(z3.Implies(to_z3(x.elem), r))
        it.ctx.events.append(("any", x.elem, r))
        return r
    raise Unsupported("np.any(%r)" % (x,))


count_nz = z3.Function("np_count_nonzero", z3.IntSort(), z3.IntSort())
count_nz_scalar = lambda x: z3.If(to_real(x) != 0, z3.IntVal(1), z3.IntVal(0))   # noqa: E731


def count_nonzero_term(x):
    """spec term for np.count_nonzero(x): a function of the buffer (for arrays) / of the value"""
    x = const_float(x)
    if is_array(x):
        return count_nz(z3.IntVal(arr_buf(x).bid))
    t = scalar_term(None, x)
    if t is None:
        raise Unsupported("count_nonzero(%r)" % (x,))
    return count_nz_scalar(t)


@np_fn("numpy.count_nonzero", "np.count_nonzero(x): number of non-zero elements; for an array it "
       "is an uninterpreted function of the buffer with: count == 0 implies the (arbitrary) "
       "element is 0, count >= 0")
def _np_count_nonzero(it, x, *a, **kw):
    x = const_float(x)
    t = count_nonzero_term(x)
    if is_array(x):
        it.assume(t >= 0)
        it.assume(z3.Implies(t == 0, to_real(arr_elem(x)) == 0))
    return t


@np_fn("numpy.allclose", "np.allclose(a, b, rtol, atol): |a - b| <= atol + rtol*|b| for every element (reals; "
       "nan/inf outside the model): the verdict implies the relation for the arbitrary element and equals it "
       "when both operands have exactly one element")
def _np_allclose(it, x, y, rtol=None, atol=None, **kw):
    from fractions import Fraction
    rtol = Fraction(1, 10 ** 5) if rtol is None else rtol
    atol = Fraction(1, 10 ** 8) if atol is None else atol
    def val(v):
        v = const_float(v)
        return to_real(arr_elem(v)) if is_array(v) else scalar_term(it, v)
    def size(v):
        return to_z3(arr_size(v)) if is_array(const_float(v)) else z3.IntVal(1)
    a, b, rt, at = val(x), val(y), val(rtol), val(atol)
    if any(t is None for t in (a, b, rt, at)):
        raise Unsupported("np.allclose operands")
    d = a - b
    rel = z3.If(d >= 0, d, -d) <= at + rt * z3.If(b >= 0, b, -b)
    v = it.fresh_bool("allclose")
    it.assume(z3.Implies(v, rel))
    it.assume(z3.Implies(z3.And(size(x) == 1, size(y) == 1, size(rtol) == 1, size(atol) == 1), v == rel))
    return v


@np_fn("numpy.shares_memory", "np.shares_memory(a, b): true iff the two arrays are backed by the same buffer "
       "(exact for whole-buffer views, which is all the model has)")
def _np_shares_memory(it, x, y, *a, **kw):
    if is_array(x) and is_array(y):
        return arr_buf(x) is arr_buf(y)
    return False


@np_fn("numpy.copyto", "np.copyto(dst, src): dst's buffer receives src's values (cast to "
       "dst's dtype); nothing else changes")
def _np_copyto(it, dst, src, *a, **kw):
    if a or kw:
        raise Unsupported("np.copyto with casting/where")
    b = arr_buf(dst)
    s = arr_elem(src) if is_array(src) else scalar_term(it, src)
    b.elem = s
    b.writes += 1
    it.ctx.events.append(("buf-write", b.bid))
    return None


def _b2r(c):
    return z3.If(c, z3.RealVal(1), z3.RealVal(0))


def _zabs(x):
    return z3.If(x >= 0, x, -x)


# element-wise scalar semantics of the binary ufuncs (reals; exact where a closed form exists,
# otherwise an uninterpreted function with the algebraic facts stated in UFUNC_FACTS)
BINARY_UFUNCS = {
    "add": lambda x, y: x + y, "subtract": lambda x, y: x - y, "multiply": lambda x, y: x * y,
    "true_divide": lambda x, y: x / y, "divide": lambda x, y: x / y,
    "power": lambda x, y: UD.rpow(x, y),
    "maximum": lambda x, y: z3.If(x >= y, x, y), "minimum": lambda x, y: z3.If(x <= y, x, y),
    "fmax": lambda x, y: z3.If(x >= y, x, y), "fmin": lambda x, y: z3.If(x <= y, x, y),
    "less": lambda x, y: _b2r(x < y), "less_equal": lambda x, y: _b2r(x <= y),
    "greater": lambda x, y: _b2r(x > y), "greater_equal": lambda x, y: _b2r(x >= y),
    "equal": lambda x, y: _b2r(x == y), "not_equal": lambda x, y: _b2r(x != y),
    "hypot": lambda x, y: ufn("hypot")(x, y), "remainder": lambda x, y: ufn("remainder")(x, y),
    "mod": lambda x, y: ufn("remainder")(x, y), "fmod": lambda x, y: ufn("fmod")(x, y),
    "arctan2": lambda x, y: ufn("arctan2")(x, y), "floor_divide": lambda x, y: ufn("floor_divide")(x, y),
    "copysign": lambda x, y: ufn("copysign")(x, y), "nextafter": lambda x, y: ufn("nextafter")(x, y),
    "heaviside": lambda x, y: ufn("heaviside")(x, y), "logaddexp": lambda x, y: ufn("logaddexp")(x, y),
    "matmul": lambda x, y: ufn("matmul")(x, y),
}
BOOL_RESULT = {"less", "less_equal", "greater", "greater_equal", "equal", "not_equal"}
FLOAT_RESULT = {"true_divide", "divide", "hypot", "arctan2", "logaddexp"}
assumed("numpy-ufunc-homogeneity", "hypot, remainder/mod, fmod (uninterpreted) are positively "
        "homogeneous of degree 1: f(k*x, k*y) == k*f(x, y) for k > 0; arctan2 is invariant under a "
        "common positive scaling (instantiated where a contract needs it)")


def homogeneity_fact(name, k, x, y):
    """f(k*x, k*y) == k*f(x,y)  (degree 1)  for the uninterpreted homogeneous ufuncs"""
    f = ufn({"mod": "remainder"}.get(name, name))
    if name == "arctan2":
        return z3.Implies(k > 0, f(k * x, k * y) == f(x, y))
    return z3.Implies(k > 0, f(k * x, k * y) == k * f(x, y))


def kind_rank(k):
    k = to_z3(k)
    return z3.If(k == sv("b"), 0, z3.If(z3.Or(k == sv("u"), k == sv("i")), 1, z3.If(k == sv("f"), 2, 3)))


def cannot_cast_same_kind(result_kind, out_kind):
    """NumPy's default casting="same_kind" for out=: a result may go into a buffer of the same or a
    higher kind (bool < integer < float < complex), never into a lower one (UFuncTypeError)"""
    return kind_rank(result_kind) > kind_rank(out_kind)



UFUNC_ALIASES = {"true_divide": "divide", "abs": "absolute", "conj": "conjugate", "mod": "remainder"}


def dispatch_array_ufunc(it, name, inputs, out, kw):
    """NumPy hands a ufunc call with a unyt operand (or out= target) to the operand's
    __array_ufunc__ (NEP 13): the library's own method, used here through its contract"""
    for k in kw:
        if kw[k] is not None:
            raise Unsupported("np.%s keyword %s on unyt operands" % (name, k))
    owner = next((o for o in list(inputs) + [out] if is_unyt_array(o)), None)
    fi = it.repo.find_method(owner.cls, "__array_ufunc__")
    if fi is None:
        raise Unsupported("__array_ufunc__ not found")
    kwargs = {"out": (out,)} if out is not None else {}
    canon = UFUNC_ALIASES.get(name, name)
    return it.call_funcinfo(fi, [owner, ExternalRef("numpy." + canon), "__call__"] + list(inputs), kwargs)


def _ufunc2(name, op=None):
    fn = BINARY_UFUNCS[name]

    def f(it, x, y, out=None, **kw):
        x, y = const_float(x), const_float(y)
        if (is_unyt_array(x) or is_unyt_array(y) or is_unyt_array(out)):
            return dispatch_array_ufunc(it, name, [x, y], out, kw)
        for k in kw:
            if k not in ("where", "casting", "order", "dtype", "subok", "axis", "axes", "keepdims"):
                raise Unsupported("np.%s keyword %s" % (name, k))
        if kw.get("where") is not None and kw.get("where") is not True:
            raise Unsupported("np.%s with where=" % name)
        ex = read_elem(it, x) if is_array(x) else scalar_term(it, x)
        ey = read_elem(it, y) if is_array(y) else scalar_term(it, y)
        if ex is None or ey is None:
            raise Unsupported("np.%s operands" % name)
        e = fn(to_real(ex), to_real(ey))
        like = x if is_array(x) else y
        floaty_scalar = (not is_array(x) and is_floaty(x)) or (not is_array(y) and is_floaty(y))
        if out is not None:
            b = arr_buf(out)
            if name in BOOL_RESULT:
                rk = sv("b")
            else:
                if is_array(x) and is_array(y):
                    rk, _rn = promote_arrays(arr_kind(x), arr_itemsize(x), arr_kind(y), arr_itemsize(y))
                else:
                    rk = to_z3(arr_kind(like))
                    if floaty_scalar:
                        rk, _rn = promote_with_pyfloat(rk, arr_itemsize(like))
                if name in FLOAT_RESULT:
                    rk = z3.If(to_z3(rk) == sv("c"), sv("c"), sv("f"))
            if it.branch(cannot_cast_same_kind(rk, b.kind)):
                it.raise_("TypeError")
            b.elem = e
            b.writes += 1
            it.ctx.events.append(("buf-write", b.bid))
            return out
        if not is_array(like):
            return e
        if name in BOOL_RESULT:
            return new_array(it, e, "b", 1, like, name)
        if is_array(x) and is_array(y):
            k, n = promote_arrays(arr_kind(x), arr_itemsize(x), arr_kind(y), arr_itemsize(y))
        else:
            k, n = arr_kind(like), arr_itemsize(like)
            if floaty_scalar:
                k, n = promote_with_pyfloat(k, n)
        if name in FLOAT_RESULT:
            k = z3.If(to_z3(k) == sv("c"), sv("c"), sv("f"))
            n = z3.If(is_int_kind(arr_kind(like)), z3.IntVal(8), to_z3(n))
        # shape: broadcasting of the two operands
        return broadcast_result(it, e, k, n, x, y, name)
    return f


def broadcast_result(it, e, k, n, x, y, label):
    """shape abstraction of a broadcast binary result: 0-d iff both operands are 0-d (python
    scalars count as 0-d); size is that of the larger operand when the other is 0-d"""
    def sc(o):
        return to_z3(arr_scalar(o)) if is_array(o) else z3.BoolVal(True)

    def sz(o):
        return to_z3(arr_size(o)) if is_array(o) else z3.IntVal(1)
    scalar = z3.And(sc(x), sc(y))
    size = it.fresh_int("bsize")
    it.assume(size >= 0)
    it.assume(z3.Implies(scalar, size == 1))
    it.assume(z3.Implies(sc(x), size == sz(y)))
    it.assume(z3.Implies(sc(y), size == sz(x)))
    it.assume(z3.Implies(z3.And(sz(x) == sz(y)), z3.Or(size == sz(x), z3.Not(z3.Or(sc(x), sc(y))))))
    return SNd(SBuf(e, k, n), z3.simplify(scalar), size, label)


for _n in BINARY_UFUNCS:
    _f = _ufunc2(_n)
    np_fn("numpy." + _n, "element-wise %s (broadcasting); out= writes through the buffer; result "
          "dtype by NumPy promotion (abstracted)" % _n)(_f)
    UD.EXTERNAL_CALLS["numpy." + _n + ".__call__"] = _f


UNARY_UFUNCS = {
    "negative": lambda x: -x, "positive": lambda x: x, "conj": lambda x: x, "conjugate": lambda x: x,
    "absolute": _zabs, "fabs": _zabs, "square": lambda x: x * x, "reciprocal": lambda x: 1 / x,
    "sqrt": lambda x: ufn("sqrt", 1)(x), "cbrt": lambda x: ufn("cbrt", 1)(x),
    "sin": lambda x: ufn("sin", 1)(x), "cos": lambda x: ufn("cos", 1)(x), "tan": lambda x: ufn("tan", 1)(x),
    "exp": lambda x: ufn("exp", 1)(x), "log": lambda x: ufn("log", 1)(x),
    "floor": lambda x: ufn("floor", 1)(x), "ceil": lambda x: ufn("ceil", 1)(x),
}
assumed("numpy-roots", "np.sqrt / np.cbrt (uninterpreted): sqrt(x) >= 0 and sqrt(x)**2 == x for x >= 0; "
        "cbrt(x)**3 == x; rpow(s, 1/2)**2 == s and rpow(s, 1/3)**3 == s for s > 0 (instantiated where a "
        "contract needs it)")


def _ufunc1(name):
    fn = UNARY_UFUNCS[name]

    def f(it, x, out=None, **kw):
        x = const_float(x)
        if is_unyt_array(x) or is_unyt_array(out):
            return dispatch_array_ufunc(it, name, [x], out, kw)
        for k in kw:
            if k not in ("where", "casting", "order", "dtype", "subok"):
                raise Unsupported("np.%s keyword %s" % (name, k))
        ex = read_elem(it, x) if is_array(x) else scalar_term(it, x)
        if ex is None:
            raise Unsupported("np.%s operand" % name)
        e = fn(to_real(ex))
        floaty = name in ("sqrt", "cbrt", "reciprocal", "sin", "cos", "tan", "exp", "log")
        if out is not None:
            b = arr_buf(out)
            if is_array(x):
                rk = to_z3(arr_kind(x))
                if floaty:
                    rk = z3.If(rk == sv("c"), sv("c"), sv("f"))
                if it.branch(cannot_cast_same_kind(rk, b.kind)):
                    it.raise_("TypeError")
            b.elem = e
            b.writes += 1
            it.ctx.events.append(("buf-write", b.bid))
            return out
        if not is_array(x):
            return e
        k, n = arr_kind(x), arr_itemsize(x)
        if floaty:
            k = z3.If(to_z3(k) == sv("c"), sv("c"), sv("f"))
            n = z3.If(is_int_kind(arr_kind(x)), z3.IntVal(8), to_z3(n))
        return new_array(it, e, k, n, x, name)
    return f


for _n in UNARY_UFUNCS:
    _f = _ufunc1(_n)
    np_fn("numpy." + _n, "element-wise %s; out= writes through the buffer" % _n)(_f)
    UD.EXTERNAL_CALLS["numpy." + _n + ".__call__"] = _f


# --------------------------------------------------------------------------- reductions
# ufunc.reduce over an array abstracted to one arbitrary element: the result element is an
# uninterpreted function of the input element and of the number of elements reduced over; the
# algebra a contract needs (degree of homogeneity) is stated there as a "NumPy:" axiom
REDUCIBLE = ("add", "maximum", "minimum", "multiply")
assumed("numpy-ufunc-reduce", "np.<ufunc>.reduce(x, axis=, out=, keepdims=, initial=, where=): the result "
        "element is the uninterpreted function np_reduce_<ufunc>(element, number of elements combined); "
        "the number combined is x.shape[axis] for an integer axis of an array with ndim >= 1 and x.size for "
        "axis=None (or a 0-d x); axis=None gives a 0-d result, an integer axis a result with one dimension "
        "less; dtype as the input's (integer results may widen); add/maximum/minimum are positively "
        "homogeneous of degree 1 and multiply of degree n in the elements (stated in the contracts)")


def reduce_fn(name):
    key = ("reduce_" + name, 2)
    if key not in UFN:
        UFN[key] = z3.Function("np_reduce_" + name, z3.RealSort(), z3.IntSort(), z3.RealSort())
    return UFN[key]


def reduce_count(it, x, axis):
    """number of elements one result element combines"""
    if axis is None:
        return to_z3(arr_size(x))
    if not isinstance(axis, int):
        raise Unsupported("reduce over axis %r" % (axis,))
    n = ndim_of(z3.IntVal(shape_owner(x)))
    it.assume((n == 0) == to_z3(arr_scalar(x)))
    if it.branch(to_z3(arr_scalar(x))):
        if axis not in (0, -1):
            it.raise_("AxisError")
        return z3.IntVal(1)
    if axis >= 0:
        if it.branch(n <= axis):
            it.raise_("AxisError")
    else:
        if it.branch(n + axis < 0):
            it.raise_("AxisError")
    return dim_length(it, shape_owner(x), axis)


def _reduce(name):
    def f(it, x, axis=0, dtype=None, out=None, keepdims=False, initial=None, where=True, **kw):
        if kw or dtype is not None or initial is not None or where is not True or keepdims is not False:
            raise Unsupported("np.%s.reduce keywords" % name)
        if is_unyt_array(x) or is_unyt_array(out):
            raise Unsupported("np.%s.reduce on a unyt operand at a call site" % name)
        if not is_array(x):
            raise Unsupported("np.%s.reduce operand" % name)
        cnt = reduce_count(it, x, axis)
        e = reduce_fn(name)(to_real(read_elem(it, x)), cnt)
        if out is not None:
            b = arr_buf(out)
            if it.branch(cannot_cast_same_kind(to_z3(arr_kind(x)), b.kind)):
                it.raise_("TypeError")
            b.elem = e
            b.writes += 1
            b.origin = ("reduce", name, cnt)
            it.ctx.events.append(("buf-write", b.bid))
            return out
        k = arr_kind(x)
        n = it.fresh_int("reduce_itemsize")
        it.assume(z3.And(n >= to_z3(arr_itemsize(x)), valid_dtype(to_z3(k), n)))
        it.assume(z3.Implies(z3.Not(is_int_kind(k)), n == to_z3(arr_itemsize(x))))
        if axis is None:
            scalar, size = z3.BoolVal(True), z3.IntVal(1)
        else:
            nd = ndim_of(z3.IntVal(shape_owner(x)))
            scalar = z3.Or(to_z3(arr_scalar(x)), nd == 1)
            size = it.fresh_int("reduce_size")
            it.assume(size >= 0)
            it.assume(z3.Implies(scalar, size == 1))
        r = SNd(SBuf(e, k, n), z3.simplify(scalar), size, name + ".reduce")
        arr_buf(r).origin = ("reduce", name, cnt)
        return r
    return f


for _n in REDUCIBLE:
    _f = _reduce(_n)
    np_fn("numpy.%s.reduce" % _n, "np.%s.reduce (see numpy-ufunc-reduce)" % _n)(_f)
    UD.EXTERNAL_CALLS["numpy." + _n + ".reduce"] = _f


UD.EXTERNAL_VALUES["numpy.ndarray"] = lambda it: ExternalRef("numpy.ndarray")
UD.EXTERNAL_ISINSTANCE["numpy.ndarray"] = lambda it, o: is_array(o)
UD.EXTERNAL_ISINSTANCE["numpy.number"] = lambda it, o: False
UD.EXTERNAL_ISINSTANCE["numpy.matrix"] = lambda it, o: False


@np_fn("warnings.warn", "warnings.warn records a warning (ghost event) and returns")
def _warn(it, msg=None, category=None, **kw):
    it.ctx.events.append(("warn", category))
    return None


def _numstr_binop(self, it, op, other, reflected):
    # "f" + str(n): the spelling of a dtype
    if op == "+" and reflected and isinstance(other, str) and other in KINDS:
        return SDtStr(other, self.p)
    if op == "+" and reflected and is_z3(other) and z3.is_string(other):
        return SDtStr(other, self.p)
    return NotImplemented


UD.SNumStr.sv_binop = _numstr_binop


def _super_getitem(it, obj):
    """ndarray.__getitem__ on a unyt_array: an index selecting one element gives a NumPy
    scalar (shape (), fresh memory, bare); any other index gives an array of the same class
    (units and name copied by __array_finalize__) -- a view for basic indexing, a copy for
    fancy indexing (memory identity is left open here: the shared-buffer case is the one that
    matters for aliasing and is the one modelled)"""
    def getitem(it_, key):
        if it_.branch(it_.fresh_bool("index_selects_one_element")):
            b = SBuf(arr_elem(obj), arr_kind(obj), arr_itemsize(obj))
            return SNd(b, True, 1, "np_scalar")
        o = SObj(obj.cls, label="indexed_" + obj.cls.name)
        o.fields["_buf"] = arr_buf(obj)
        scalar, size = fresh_shape(it_, "indexed")
        it_.assume(z3.Not(scalar))
        o.fields["_scalar"] = scalar
        o.fields["_size"] = size
        o.fields["units"] = obj.fields["units"]
        o.fields["name"] = obj.fields.get("name")
        return o
    return Intrinsic("ndarray.__getitem__", getitem)


UD.SUPER_ATTR[("unyt_array", "__getitem__")] = _super_getitem
assumed("numpy-indexing", "ndarray.__getitem__ on a subclass returns a NumPy scalar (shape ()) when "
        "the index selects one element, otherwise an array of the same class whose units/name were "
        "copied by __array_finalize__")


def install(domain_cls):
    """hook array behaviour of unyt_array SObj's into the domain"""
    orig_getattr = domain_cls.obj_getattr
    orig_setattr = domain_cls.obj_setattr
    orig_binop = domain_cls.obj_binop
    orig_inplace = domain_cls.inplace_binop

    def obj_getattr(self, it, obj, name):
        if "_buf" in obj.fields and name in ARRAY_ATTR and \
                it.repo.find_method(obj.cls, name) is None:
            return ARRAY_ATTR[name](it, obj)
        return orig_getattr(self, it, obj, name)

    def obj_setattr(self, it, obj, name, value):
        if "_buf" in obj.fields and array_setattr(it, obj, name, value):
            return True
        return orig_setattr(self, it, obj, name, value)

    def inplace_binop(self, it, op, cur, v):
        if isinstance(cur, SNd):
            return array_inplace(it, op, cur, v)
        return orig_inplace(self, it, op, cur, v)

    def obj_binop(self, it, obj, op, other, reflected):
        # python scalar * quantity (the `mul * out_arr` tail of __array_ufunc__): this is the
        # multiply(s, q) configuration of __array_ufunc__ itself, used here through its
        # contract (induction hypothesis; proved as U_multiply_call_sq): same class, same shape,
        # same unit, every element scaled, fresh memory
        if "_buf" in obj.fields and op == "*" and not is_array(other):
            t = scalar_term(it, other)
            if t is not None:
                it.call_log.append("unyt.array.unyt_array.__array_ufunc__[multiply(s,q) by contract]")
                nd = new_array(it, to_real(arr_elem(obj)) * t,
                               *promote_with_pyfloat(arr_kind(obj), arr_itemsize(obj)), obj, "scaled")
                return _rewrap(it, nd, obj)
        # ndarray's arithmetic operators are the ufuncs (unyt_array does not override them)
        if "_buf" in obj.fields and op in ("*", "/") and it.contracts.get(
                "unyt.array.unyt_array.__array_ufunc__") is not None \
                and it.repo.find_method(obj.cls, {"*": "__mul__", "/": "__truediv__"}[op]) is None:
            if is_unyt_array(other) or (not is_array(other) and scalar_term(it, other) is not None):
                ins = [other, obj] if reflected else [obj, other]
                return dispatch_array_ufunc(it, {"*": "multiply", "/": "divide"}[op], ins, None, {})
        return orig_binop(self, it, obj, op, other, reflected)

    domain_cls.obj_getattr = obj_getattr
    domain_cls.obj_setattr = obj_setattr
    domain_cls.inplace_binop = inplace_binop
    domain_cls.obj_binop = obj_binop

    def array_len(self_obj, it):
        # len(a) == a.shape[0]; TypeError for 0-d arrays
        if isinstance(self_obj, SNd) or "_buf" in getattr(self_obj, "fields", {}):
            if it.branch(to_z3(arr_scalar(self_obj))):
                it.raise_("TypeError")
            n = ndim_of(z3.IntVal(shape_owner(self_obj)))
            it.assume(n >= 1)
            return dim_length(it, shape_owner(self_obj), 0)
        raise Unsupported("len of %r" % (self_obj,))

    SObj.sv_len = array_len
    SNd.sv_len = array_len


install(UD.UnytDomain)


assumed("numpy-ndarray-setstate", "ndarray.__setstate__(state) restores shape, dtype and data of the array from the "
        "pickled state; it does not look at or touch the units attribute")
UD.SUPER_ATTR[("unyt_array", "__setstate__")] = lambda it, obj: Intrinsic(
    "ndarray.__setstate__", lambda it_, state: None)


assumed("numpy-ndarray-setitem", "ndarray.__setitem__(index, value) copies the numbers of `value` (a number, a bare array or "
        "a unyt array: its units are not looked at) into the selected elements of the array's own buffer, cast to the "
        "array's dtype; nothing else is written.  The abstraction's arbitrary element is either one of the selected "
        "elements (it now holds value's number) or one that was not selected (unchanged): both are explored")


def _super_setitem(it, obj):
    def setitem(it_, index, value):
        value = const_float(value)
        if is_array(value):
            e = read_elem(it_, value)
        else:
            e = scalar_term(it_, value)
            if e is None:
                raise Unsupported("ndarray.__setitem__ with value %r" % (value,))
        b = arr_buf(obj)
        b.writes += 1
        it_.ctx.events.append(("buf-write", b.bid))
        if it_.branch(it_.fresh_bool("arbitrary_element_is_assigned")):
            b.elem = to_real(e)
            b.assigned_from = value
        return None
    return Intrinsic("ndarray.__setitem__", setitem)


UD.SUPER_ATTR[("unyt_array", "__setitem__")] = _super_setitem
