"""Contract objects and the function-by-function verifier.

A Contract is attached (sidecar, keyed by qualified name) to one real function of the
package.  It is used twice:
  * verify(): the function's *body* (real AST) is executed symbolically from symbolic
    formals satisfying `requires`; every normal path must establish `ensures` and must not
    satisfy a `raises` condition; every raising path must be permitted by `raises` and
    establish `on_raise`.
  * apply(): at a *call site* inside another verified function only the contract is used:
    `requires` becomes a proof obligation, the call forks into its exceptional outcomes,
    `modifies` is havoc'd and `ensures` is assumed about a fresh result.
"""
import time
import traceback

import z3

from . import smt
from .core import (Ctx, Explorer, Interp, PyRaise, Unsupported, Infeasible, PathLimit,
                   PathResult, ObligationResult, is_z3)


class Args:
    """attribute-style view of bound arguments"""

    def __init__(self, d):
        self.__dict__.update(d)

    def __getitem__(self, k):
        return self.__dict__[k]

    def get(self, k, default=None):
        return self.__dict__.get(k, default)


class Contract:
    name = None                   # qualified name of the real function
    exact = True                  # False: abstraction slack, counter-models are not refutations
    properties = ()               # property ids this contract serves
    may_raise = ()                # exception classes that may be raised with no stated condition
    max_paths = 4000
    assumptions = ()              # free-text assumptions this contract introduces

    # --- to be overridden -------------------------------------------------------------
    def formals(self, it):
        """dict name -> symbolic value for verifying the body (may fork via it.ctx)"""
        raise NotImplementedError

    def requires(self, it, a):
        return []                 # list of (label, z3 Bool)

    def raises(self, it, a):
        return {}                 # exc name -> z3 Bool condition (raise iff condition)

    def snapshot(self, it, a):
        return None               # 'old' state captured at entry

    def havoc(self, it, a):
        pass                      # mutate a's objects according to `modifies`

    def result(self, it, a):
        return None               # fresh symbolic result at call sites

    def ensures(self, it, a, r, old):
        return []                 # list of (label, z3 Bool)

    def on_raise(self, it, a, old, exc):
        return []                 # list of (label, z3 Bool)

    def track(self, it, a):
        """register terms whose model values should be shown in counterexamples"""
        for k, v in a.__dict__.items():
            if is_z3(v):
                it.ctx.track(k, v)

    def canary(self, it, a, r, old):
        """a deliberately false postcondition: must be refuted on at least one path"""
        return None

    # --- call-site use ------------------------------------------------------------------
    def apply(self, it, bound):
        a = Args(bound)
        for label, f in self.requires(it, a):
            it.ctx.prove("%s: pre[%s] at call from %s" % (self.name, label, it.verifying),
                         f, kind="callsite-pre")
            it.assume(f)
        if not self.exact:
            it.ctx.abstract_crossed.append(self.name)
        conds = self.raises(it, a)
        for exc, cond in conds.items():
            if it.branch(cond):
                it.raise_(exc)
        for exc in self.may_raise:
            if it.branch(it.fresh_bool("mayraise_" + exc)):
                it.raise_(exc)
        old = self.snapshot(it, a)
        self.havoc(it, a)
        r = self.result(it, a)
        for label, f in self.ensures(it, a, r, old):
            if f is False:
                # the call-site model (havoc/result) does not satisfy the contract's own
                # postcondition: a modelling error, never a silently dropped path
                raise Unsupported("call-site model of %s violates its postcondition %r" % (self.name, label))
            it.assume(f)
        return r


class VerifyReport:
    def __init__(self, contract_name):
        self.name = contract_name
        self.paths = 0
        self.obligations = []      # ObligationResult
        self.undecided_paths = []  # (reason)
        self.error = None
        self.canary_refuted = None
        self.time = 0.0
        self.source_hash = None
        self.calls = set()
        self.abstract = set()

    @property
    def discharged(self):
        return sum(1 for o in self.obligations if o.verdict == "unsat")

    @property
    def failed(self):
        return [o for o in self.obligations if o.verdict == "sat"]

    @property
    def unknown(self):
        return [o for o in self.obligations if o.verdict == "unknown"]

    def ok(self):
        return (self.error is None and not self.failed and not self.unknown
                and not self.undecided_paths and len(self.obligations) > 0)

    def to_json(self):
        return {
            "function": self.name, "paths": self.paths,
            "obligations": len(self.obligations), "discharged": self.discharged,
            "failed": [{"label": o.label, "kind": o.kind, "model": _js(o.model),
                        "formula": o.formula, "where": o.where, "exact": o.exact}
                       for o in self.failed],
            "unknown": [o.label for o in self.unknown],
            "undecided_paths": self.undecided_paths[:10],
            "error": self.error, "canary_refuted": self.canary_refuted,
            "time_s": round(self.time, 3), "source_hash": self.source_hash,
            "callees_by_contract": sorted(self.calls),
            "abstract_contracts_crossed": sorted(self.abstract),
            "backends": _backends(self.obligations),
            "by_property": _by_property(self.obligations),
        }


def _prop_of(label):
    """obligations whose label starts with `Cnn:` (after the kind prefix) belong to that
    property only; everything else serves every property the contract is listed for"""
    import re
    m = re.match(r"(?:post: |on-raise\[[A-Za-z]+\]: )?((?:C\d\d/)*C\d\d):", label)
    return m.group(1) if m else None


def belongs(label, pid):
    """an obligation labelled `C01/C18: ...` belongs to C01 and C18 only; unlabelled ones to
    every property the contract serves"""
    p = _prop_of(label)
    return p is None or pid in p.split("/")


def _by_property(obls):
    d = {}
    for o in obls:
        k = _prop_of(o.label) or "*"
        t = d.setdefault(k, [0, 0])
        t[0] += 1
        if o.verdict == "unsat":
            t[1] += 1
    return d


def _backends(obls):
    d = {}
    for o in obls:
        d[o.backend] = d.get(o.backend, 0) + 1
    return d


def _js(m):
    if m is None:
        return None
    out = {}
    for k, v in m.items():
        out[k] = v if isinstance(v, (int, float, str, bool)) or v is None else str(v)
    return out


def verify(contract, repo, domain, contracts, fi=None):
    """verify the body of contract.name against contract; returns VerifyReport"""
    rep = VerifyReport(contract.name)
    t0 = time.time()
    fi = fi or repo.func(contract.name)
    if fi is None:
        rep.error = "function %s not found in source" % contract.name
        return rep
    rep.source_hash = fi.source_hash()
    ex = Explorer(max_paths=contract.max_paths)
    canary_hits = [0]
    has_canary = [False]

    def one_path(ctx):
        it = Interp(repo, domain, ctx, contracts, verifying=contract.name)
        domain.begin_path(it)
        try:
            formals = contract.formals(it)
            a = Args(formals)
            contract.track(it, a)
            for label, f in contract.requires(it, a):
                it.assume(f)
            if not ctx.feasible():
                raise Infeasible()
            old = contract.snapshot(it, a)
            conds = contract.raises(it, a)
            try:
                r = it.call_funcinfo(fi, contract.call_args(formals) if hasattr(
                    contract, "call_args") else list(formals.values()),
                    contract.call_kwargs(formals) if hasattr(contract, "call_kwargs") else {},
                    force_body=True)
            except PyRaise as e:
                allowed = [c for x, c in conds.items() if repo.exc_issubclass(e.exc, x)]
                if e.exc in contract.may_raise or any(
                        repo.exc_issubclass(e.exc, x) for x in contract.may_raise):
                    ctx.prove("raise %s permitted (may_raise)" % e.exc, True,
                              kind="raise-allowed", where=e.where)
                elif allowed:
                    f = allowed[0] if len(allowed) == 1 else z3.Or(*[
                        c if is_z3(c) else z3.BoolVal(c) for c in allowed])
                    ctx.prove("raise %s only under its stated condition" % e.exc, f,
                              kind="raise-allowed", where=e.where)
                else:
                    ctx.prove("raise %s is not in the contract's raises set" % e.exc,
                              False, kind="raise-allowed", where=e.where)
                for label, f in contract.on_raise(it, a, old, e.exc):
                    ctx.prove("on-raise[%s]: %s" % (e.exc, label), f, kind="on-raise",
                              where=e.where)
                return _finish(PathResult("raise", e.exc, ctx), it)
            for exc, cond in conds.items():
                ctx.prove("normal return implies not raise-condition[%s]" % exc,
                          _not(cond), kind="must-raise")
            for label, f in contract.ensures(it, a, r, old):
                ctx.prove("post: " + label, f, kind="post")
            cn = contract.canary(it, a, r, old)
            if cn is not None:
                has_canary[0] = True
                v, _, _ = smt.check(ctx.solver, z3.Not(cn) if is_z3(cn) else z3.BoolVal(not cn))
                if v == "sat":
                    canary_hits[0] += 1
            return _finish(PathResult("return", r, ctx), it)
        except Unsupported as u:
            return _finish(PathResult("unsupported", None, ctx, error=str(u)), it)

    def _finish(res, it):
        rep.calls.update(it.call_log)
        rep.abstract.update(res.ctx.abstract_crossed)
        return res

    try:
        results = ex.run(one_path)
    except PathLimit as e:
        rep.error = str(e)
        results = []
    except Exception:
        rep.error = "checker crash: " + traceback.format_exc()[-1500:]
        results = []
    rep.paths = len(results)
    for res in results:
        if res.outcome == "unsupported":
            rep.undecided_paths.append(res.error)
        exact = not res.ctx.abstract_crossed
        for o in res.ctx.results:
            o.exact = exact
            rep.obligations.append(o)
    if has_canary[0]:
        rep.canary_refuted = canary_hits[0] > 0
    # cover: a contract that describes a returning function must still have a feasible
    # normal return (a body that now raises on every input would satisfy every postcondition
    # vacuously)
    n_return = sum(1 for res in results if res.outcome == "return")
    if getattr(contract, "expect_return", True) and results and not rep.error:
        from .core import ObligationResult
        label = "cover: a normal return is reachable under the precondition"
        if n_return > 0:
            o = ObligationResult(label, "cover", "unsat", "paths")
        elif rep.undecided_paths:
            o = None
        else:
            o = ObligationResult(label, "cover", "sat", "paths", model={}, formula="no returning path")
        if o is not None:
            o.exact = True
            rep.obligations.append(o)
    rep.time = time.time() - t0
    return rep


def _not(c):
    if isinstance(c, bool):
        return not c
    return z3.Not(c)


class Lemma:
    """a closed obligation over contracts only (no code re-read): name + builder returning
    (assumptions, goal) as z3 formulas"""

    def __init__(self, name, build, properties=(), note=""):
        self.name = name
        self.build = build
        self.properties = properties
        self.note = note

    def check(self):
        t0 = time.time()
        s = smt.new_solver()
        hyps, goal = self.build()
        for h in hyps:
            s.add(h)
        # vacuity: hypotheses must be satisfiable
        v0, _, _ = smt.check(s)
        v, m, be = smt.check(s, z3.Not(goal))
        return {"lemma": self.name, "verdict": v, "backend": be,
                "hyps_satisfiable": v0 == "sat", "time_s": round(time.time() - t0, 3),
                "model": str(m)[:600] if m is not None else None, "note": self.note}
