"""Ground layer: evaluates the literal tables of the package *exactly* from the current
source text.  The module sources (_physical_ratios, dimensions, _unit_lookup_table) are
re-read with ast on every run, every float literal is replaced by the exact decimal
rational it is written as, numpy is replaced by a shim whose pi / sqrt / log are sympy's,
and the transformed module is executed in a sandbox namespace.  Nothing from the installed
package is imported, so the tables are those of the tree being checked.

What is dropped/changed by the transformation (stated for the evidence):
  * float literals -> sympy.Rational(<literal text>)   (exact; the code uses binary64)
  * `import numpy as np` -> shim (pi, sqrt, log exact);  `from unyt import dimensions` and
    `from unyt._physical_ratios import ...` -> the sandbox-evaluated modules
  * docstrings / decorators untouched; functions (generate_name_alternatives) run as is.
"""
import ast
import os
import types

import sympy


class _FloatToRational(ast.NodeTransformer):
    def visit_Constant(self, node):
        if isinstance(node.value, float):
            return ast.copy_location(
                ast.Call(func=ast.Name(id="_R", ctx=ast.Load()),
                         args=[ast.Constant(value=repr(node.value))], keywords=[]), node)
        return node


class _NP:
    pi = sympy.pi

    @staticmethod
    def sqrt(x):
        return sympy.sqrt(x)

    @staticmethod
    def log(x):
        return sympy.log(x)


class _PrimitivesToSymbols(ast.NodeTransformer):
    """symbolic mode: a module-level `NAME = <numeric literal>` becomes NAME = Symbol(NAME,
    positive) so that derived quantities are expressions over the primitive measured numbers"""

    def __init__(self):
        self.primitives = []

    def visit_Module(self, node):
        for st in node.body:
            if isinstance(st, ast.Assign) and len(st.targets) == 1 and isinstance(
                    st.targets[0], ast.Name):
                v = st.value
                if isinstance(v, ast.UnaryOp) and isinstance(v.op, ast.USub):
                    v = v.operand
                if isinstance(v, ast.Constant) and isinstance(v.value, (int, float)) \
                        and not isinstance(v.value, bool):
                    name = st.targets[0].id
                    self.primitives.append(name)
                    st.value = ast.copy_location(
                        ast.Call(func=ast.Name(id="_SYM", ctx=ast.Load()),
                                 args=[ast.Constant(value=name)], keywords=[]), st.value)
        return node


def _exec_module(path, name, preset, symbolic=False):
    with open(path) as f:
        src = f.read()
    tree = ast.parse(src)
    if symbolic:
        tr = _PrimitivesToSymbols()
        tree = tr.visit(tree)
    body = []
    for st in tree.body:
        if isinstance(st, (ast.Import, ast.ImportFrom)):
            mod = st.module if isinstance(st, ast.ImportFrom) else None
            if isinstance(st, ast.Import) and all(a.name == "numpy" for a in st.names):
                continue
            if mod in ("collections", "functools", "itertools"):
                body.append(st)
                continue
            if mod in preset.get("__from__", {}):
                continue
            if isinstance(st, ast.ImportFrom) and mod in ("sympy",):
                body.append(st)
                continue
            if isinstance(st, ast.ImportFrom) and mod and mod.startswith("unyt"):
                continue
            continue
        body.append(st)
    tree.body = body
    tree = ast.fix_missing_locations(_FloatToRational().visit(tree))
    ns = {"__name__": name, "np": _NP, "_R": lambda s: sympy.Rational(s),
          "_SYM": lambda n: sympy.Symbol(n, positive=True)}
    for k, v in preset.items():
        if k != "__from__":
            ns[k] = v
    exec(compile(tree, path, "exec"), ns)
    return ns


class Tables:
    def __init__(self, repo_root, symbolic=False):
        """symbolic=True: the numeric literals assigned at the top level of
        _physical_ratios.py are free positive symbols (named after the variable)"""
        pkg = os.path.join(repo_root, "unyt")
        self.symbolic = symbolic
        self.ratios = _exec_module(os.path.join(pkg, "_physical_ratios.py"),
                                   "unyt._physical_ratios", {}, symbolic=symbolic)
        # dimensions: strip the decorators section by presetting nothing; warn_deprecated unused
        dims_ns = _exec_module(os.path.join(pkg, "dimensions.py"), "unyt.dimensions",
                               {"warn_deprecated": lambda *a, **k: None,
                                "__from__": {"unyt._deprecation": 1}})
        self.dims_ns = dims_ns
        dims_mod = types.SimpleNamespace(**{k: v for k, v in dims_ns.items()
                                            if not k.startswith("__")})
        preset = dict((k, v) for k, v in self.ratios.items() if not k.startswith("__"))
        preset["dimensions"] = dims_mod
        self.lut_ns = _exec_module(os.path.join(pkg, "_unit_lookup_table.py"),
                                   "unyt._unit_lookup_table", preset)
        self.lut = self.lut_ns["default_unit_symbol_lut"]
        self.prefixes = self.lut_ns["unit_prefixes"]
        self.constants = self.lut_ns["physical_constants"]
        self.alternatives = self.lut_ns["default_unit_name_alternatives"]
        self.name_alternatives = self.lut_ns["name_alternatives"]
        self.inv_name_alternatives = self.lut_ns["inv_name_alternatives"]
        self.base = ["mass", "length", "time", "temperature", "angle", "current_mks",
                     "luminous_intensity", "logarithmic"]

    def dimvec(self, d):
        """exponent vector of a sympy dimension expression over the base symbols"""
        d = sympy.sympify(d)
        pw = sympy.powsimp(sympy.expand_power_base(d, force=True), force=True).as_powers_dict()
        out = []
        names = {str(self.dims_ns[b]): b for b in self.base}
        got = {}
        for k, v in pw.items():
            if k == 1:
                continue
            if str(k) not in names:
                raise ValueError("unknown dimension symbol %s" % k)
            got[names[str(k)]] = sympy.Rational(v)
        return [got.get(b, sympy.Integer(0)) for b in self.base]
