"""Job runner: verifies contracts in a process pool and collects JSON reports."""
import importlib
import json
import multiprocessing as mp
import os
import sys
import time
import traceback

from . import smt
from .source import Repo
from .contracts import verify, Lemma


def _load_contract(spec):
    mod, cls = spec
    m = importlib.import_module(mod)
    return getattr(m, cls)()


def all_contracts():
    """default call-site contracts: every Contract subclass without a `tag`, keyed by name"""
    import contracts
    return contracts.callsite_contracts()


def run_proof_job(args):
    repo_root, spec = args
    t0 = time.time()
    try:
        from .unyt_domain import UnytDomain
        from . import np_domain  # noqa: F401 (installs the array model)
        from . import handlers  # noqa: F401 (numpy implementation model)
        smt.reset_stats()
        repo = Repo(repo_root)
        dom = UnytDomain(repo)
        c = _load_contract(spec)
        cs = all_contracts()
        if hasattr(c, "configure"):
            c.configure(repo, dom)
        rep = verify(c, repo, dom, cs)
        js = rep.to_json()
        js["job"] = "%s.%s" % spec
        js["tag"] = getattr(c, "tag", None)
        js["properties"] = list(c.properties)
        js["assumptions"] = list(c.assumptions)
        js["solver"] = dict(smt.STATS)
        # replay scripts for failed obligations
        for f in js["failed"]:
            try:
                f["replay"] = c.replay(f["model"], f["label"]) if hasattr(c, "replay") else None
            except Exception:
                f["replay"] = None
                f["replay_error"] = traceback.format_exc()[-500:]
        return js
    except Exception:
        return {"job": "%s.%s" % spec, "function": "?", "error": "checker crash: " +
                traceback.format_exc()[-2000:], "obligations": 0, "discharged": 0,
                "failed": [], "unknown": [], "undecided_paths": [], "paths": 0,
                "time_s": round(time.time() - t0, 3), "properties": [], "assumptions": [],
                "solver": {}, "canary_refuted": None, "callees_by_contract": [],
                "abstract_contracts_crossed": [], "backends": {}, "tag": None,
                "source_hash": None}


def run_lemma_job(args):
    mod, name = args
    try:
        m = importlib.import_module(mod)
        lem = getattr(m, name)
        if not isinstance(lem, Lemma):
            lem = lem()
        return lem.check()
    except Exception:
        return {"lemma": "%s.%s" % (mod, name), "verdict": "error", "backend": "-",
                "hyps_satisfiable": False, "time_s": 0,
                "model": traceback.format_exc()[-1500:], "note": ""}


def run_pool(fn, arglist, nproc=None):
    if not arglist:
        return []
    nproc = nproc or min(len(arglist), int(os.environ.get("PYVC_NPROC", "16")))
    if nproc <= 1:
        return [fn(a) for a in arglist]
    ctx = mp.get_context("fork")
    with ctx.Pool(nproc) as pool:
        return pool.map(fn, arglist, chunksize=1)
