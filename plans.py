"""Per-property verification plans: which proof jobs, lemmas, ground checks and bounded
drivers decide each property (see DESIGN.md section 5)."""


class Plan:
    def __init__(self, level, proofs=(), lemmas=(), ground=(), bounded=None,
                 trusted_base=(), assumptions=(), explanation="", timeouts=(600, 3000),
                 more_proofs=()):
        self.level = level
        self.proofs = list(proofs)
        self.more_proofs = list(more_proofs)      # additional proof jobs of the thorough tier
        self.lemmas = list(lemmas)
        self.ground = list(ground)
        self.bounded = bounded
        self.trusted_base = list(trusted_base)
        self.assumptions = list(assumptions)
        self.explanation = explanation
        self.timeouts = timeouts

    def bounded_timeout(self, tier):
        return self.timeouts[1] if tier == "thorough" else self.timeouts[0]


BASE_TRUST = [
    "pyvc symbolic executor (this repository, /verif/pyvc): its encoding of the Python subset",
    "z3 5.1 / cvc5 1.0.3 soundness",
    "Python float arithmetic modelled as exact real arithmetic",
]

PLANS = {}

PLANS["C03"] = Plan(
    level="proof",
    proofs=[("contracts.units_core", "SplitPrefix"),
            ("contracts.units_core", "UnitStr"),
            ("contracts.units_core", "GetConversionFactor")],
    trusted_base=BASE_TRUST,
    explanation="conversion laws proved over all real scales/offsets from the real "
                "_get_conversion_factor body",
)

import ground_checks as G   # noqa: E402

PLANS["C03"].lemmas = [("contracts.lemmas_c03", "identity"), ("contracts.lemmas_c03", "inverse"),
                       ("contracts.lemmas_c03", "composition")]

PLANS["C14"] = Plan(
    level="proof",
    proofs=[("contracts.units_core", "SplitPrefix"), ("contracts.units_core", "SplitPrefixComplete"),
            ("contracts.units_core", "LookupUnitSymbol")],
    bounded=("bounded/c14.py", [], []),
    trusted_base=BASE_TRUST,
    explanation="prefix resolution proved for all strings and all tables (z3 strings); the finite "
                "name space is enumerated completely on the real package (exhaustive bounded run)",
)

PLANS["C02"] = Plan(
    level="proof",
    proofs=[("contracts.units_core", "SplitPrefix"), ("contracts.units_core", "LookupUnitSymbol"),
            ("contracts.units_core", "GetConversionFactor")],
    lemmas=[("contracts.lemmas_c03", "scale_ratio")],
    ground=[G.g_unit_table],
    trusted_base=BASE_TRUST,
    explanation="every table row against independent exact definitions (ground, exhaustive); "
                "prefix lookup and conversion factor proved for all tables",
)

ROUTES = [("contracts.routes", "InUnits"), ("contracts.routes", "To"),
          ("contracts.routes", "ConvertToUnits"), ("contracts.routes", "ToValue"),
          ("contracts.routes", "ToValueQuantity")]
PLANS["C03"].proofs += ROUTES

PLANS["C18"] = Plan(level="proof", proofs=ROUTES + [("contracts.unit_ops", "AsCoeffUnit")],
                    trusted_base=BASE_TRUST,
                    explanation="normal and exceptional frame conditions of the conversion routes")
PLANS["C17"] = Plan(level="proof", proofs=ROUTES, trusted_base=BASE_TRUST,
                    explanation="dtype obligations decided for the whole dtype lattice (symbolic kind/itemsize)")

PLANS["C05"] = Plan(
    level="proof",
    proofs=[("contracts.unit_ops", c) for c in ("UnitMul", "UnitTrueDiv", "UnitPow", "UnitEq",
                                                "SameDimensionsAs", "AsCoeffUnit")],
    lemmas=[("contracts.lemmas_c05", n) for n in ("commutativity", "associativity", "identity",
                                                  "inverse", "div_inverse", "pow_pow", "pow_distrib",
                                                  "homomorphism", "joule")],
    trusted_base=BASE_TRUST,
    explanation="Unit.__mul__/__truediv__/__pow__/__eq__/as_coeff_unit proved against "
                "scale/dimension/offset/registry postconditions; the algebraic laws are lemmas "
                "over those contracts",
)

PLANS["C15"] = Plan(
    level="proof",
    ground=[G.g_constants],
    trusted_base=BASE_TRUST,
    explanation="defining relations among the constants proved as symbolic identities over the "
                "primitive measured numbers (re-extracted from the source each run); every value, "
                "dimension and name checked exhaustively against independent tables; unit/constant "
                "coincidence symbolically and numerically",
)


# ------------------------------------------------------------------ __array_ufunc__ family
from contracts import ufunc as _U   # noqa: E402


def _uf(*names):
    return [("contracts.ufunc", n) for n in names]


def _sel(pred):
    return [("contracts.ufunc", n) for n in _U.ALL if pred(n)]


_QQ = lambda n: n.endswith("_call_qq")                                   # noqa: E731
_NONTEMP = lambda n: "_T_" not in n                                      # noqa: E731
_REPR = ("U_add_", "U_subtract_", "U_maximum_", "U_less_", "U_equal_", "U_multiply_", "U_divide_")
UNIT_RULES = [("contracts.unit_ops", c) for c in (
    "PreserveUnits", "DifferenceUnits", "MultiplyUnits", "DivideUnits", "UnitSimplify", "UnitMul",
    "UnitTrueDiv", "UnitPow", "UnitEq", "SameDimensionsAs", "AsCoeffUnit")]
CONV = [("contracts.units_core", "GetConversionFactor"), ("contracts.units_core", "SplitPrefix"),
        ("contracts.units_core", "UnitStr"), ("contracts.units_core", "UnitRepr")]

_COMM = lambda n: any(n.startswith("U_%s_" % u) for u in _U.ADDITIVE + _U.HOMOG + _U.COMPARE)  # noqa: E731
PLANS["C01"] = Plan(
    level="proof",
    proofs=_sel(lambda n: _NONTEMP(n) and _COMM(n) and (_QQ(n) or n.startswith(_REPR)))
    + CONV + [("contracts.unit_ops", c) for c in ("PreserveUnits", "DifferenceUnits", "UnitEq",
                                                   "SameDimensionsAs")],
    more_proofs=_sel(lambda n: _NONTEMP(n) and _COMM(n) and not (_QQ(n) or n.startswith(_REPR))),
    ground=[G._filtered(G.g_ufunc_classes, "C01.")],
    trusted_base=BASE_TRUST,
    explanation="for every commensurability-requiring ufunc the real body of __array_ufunc__ is "
                "proved (all units, readings, dtypes, shapes; operand kinds quantity / bare scalar / "
                "0 / bare array) to return only for operands of one dimension or under a documented "
                "exception, and to leave every operand untouched when it raises; the ufunc->rule "
                "table is checked against the classification the statement implies",
)
PLANS["C04"] = Plan(
    level="proof",
    proofs=_sel(lambda n: _NONTEMP(n) and (_QQ(n) or n.startswith(_REPR))) + UNIT_RULES + CONV[:1],
    more_proofs=_sel(lambda n: _NONTEMP(n) and not (_QQ(n) or n.startswith(_REPR))),
    ground=[G._filtered(G.g_ufunc_classes, "C04.")],
    trusted_base=BASE_TRUST,
    explanation="SI-homomorphism of __array_ufunc__ per ufunc class proved from the real body: "
                "SI(result) = op(SI(a), SI(b)), dimension by dimensional analysis, label = left-most "
                "operand's unit; unit rules (_multiply_units, _divide_units, simplify, as_coeff_unit) "
                "under contract so the coefficient bookkeeping is covered whatever sympy cancels",
)
PLANS["C08"] = Plan(
    level="proof",
    proofs=_sel(lambda n: "_T_" in n) + CONV + [("contracts.unit_ops", c) for c in (
        "PreserveUnits", "DifferenceUnits", "UnitMul", "UnitTrueDiv", "UnitPow", "UnitPowOffsetGuard")],
    trusted_base=BASE_TRUST,
    explanation="affine point/difference semantics of add/subtract proved for every ordered pair of "
                "the library's temperature unit names (readings, degree sizes, zero points symbolic); "
                "offset guards of Unit.__mul__/__truediv__/__pow__ and the affine conversion law "
                "proved from their bodies",
)

for _pid in ("C01", "C04", "C08"):
    PLANS[_pid].bounded = ("bounded/c%s.py" % _pid[1:], [], [])


# ------------------------------------------------------------------ array-function handlers
from contracts import handlers as _H   # noqa: E402

_HANDLERS = [("contracts.handlers", n) for n in _H.ALL
             if getattr(_H, n).handler not in _H.UNDECIDED_BY_DESIGN]
_MERGING = [("contracts.handlers", n) for n in _H.ALL
            if _H.NA.F[getattr(_H, n).numpy]["merge"]]
PLANS["C06"] = Plan(
    level="proof", proofs=_HANDLERS, bounded=("bounded/c06.py", [], []), trusted_base=BASE_TRUST,
    explanation="forwarding by congruence: every @implements handler is executed symbolically with "
                "numpy's private implementations as uninterpreted functions; each returned value and "
                "out= target must originate from the implementation of exactly the function named in "
                "the handler's decorator applied to the caller's arguments stripped of units, bound "
                "through NumPy's signature; functions without a handler run NumPy's own code: bounded only",
)
PLANS["C07"] = Plan(
    level="proof", proofs=_HANDLERS + [("contracts.unit_ops", c) for c in ("UnitMul", "UnitTrueDiv", "UnitPow")],
    bounded=("bounded/c07.py", [], []), trusted_base=BASE_TRUST,
    explanation="unit bookkeeping of every handler against the homogeneity degrees of "
                "spec/numpy_algebra.py: units(result) == prod(units(arg)**degree) in scale and dimension, "
                "bare results carry no units; Unit arithmetic through its proved contracts",
)
PLANS["C01"].proofs += _MERGING


# ------------------------------------------------------------------ C16
from contracts import accessors as _A   # noqa: E402

PLANS["C16"] = Plan(
    level="proof",
    proofs=[("contracts.accessors", n) for n in _A.ALL]
    + _sel(lambda n: _NONTEMP(n) and n.split("_call_")[0] in ("U_add", "U_multiply", "U_less", "U_divide", "U_maximum"))
    + [("contracts.handlers", n) for n in _H.ALL if getattr(_H, n).handler in ("take", "einsum", "dot", "around", "clip_impl", "clip")]
    + ROUTES,
    trusted_base=BASE_TRUST,
    explanation="result-class decision proved at the four places it is made (wrap-up of __array_ufunc__ for "
                "every operand configuration, __getitem__, Unit.__mul__ with data, unyt_quantity.__new__ size "
                "guard); memory contracts of the accessors (.d/.ndview/ndarray_view views; .v/.value/"
                "to_ndarray copies) and of the converting routes (fresh memory, input untouched)",
)

PLANS["C16"].bounded = ("bounded/c16.py", [], [])


# ------------------------------------------------------------------ properties whose proof layer is partial:
# the bounded driver carries the claim (level "other"), proof obligations are added as they are built
def _other(pid, proofs, expl):
    PLANS[pid] = Plan(level="other", proofs=proofs, bounded=("bounded/c%s.py" % pid[1:], [], []),
                      trusted_base=BASE_TRUST, explanation=expl)


_other("C09", [("contracts.unit_ops", "SameDimensionsAs")] + ROUTES,
       "bounded: all 9 equivalences x all ordered dimension pairs x units x call forms against the closed-form "
       "formulas on SI magnitudes; proved: the final unit conversion and purity of the copying routes (in_units/to)")
_other("C10", ROUTES + CONV[:1],
       "bounded: all registered and generated unit systems x all table atoms x compounds; proved: quantity "
       "preservation of the conversion step (conversion-factor contract)")
_other("C11", [("contracts.units_core", "UnitStr"), ("contracts.units_core", "UnitRepr")],
       "bounded: 21 restoration routes x registries x follow-up battery in both orders; proved: the printed form "
       "used for persistence (Unit.__str__/__repr__ special cases)")
_other("C12", [("contracts.units_core", "LookupUnitSymbol"), ("contracts.units_core", "SplitPrefix")],
       "bounded: all registry histories to length 3-4 (thorough 5-6) + random long ones against a fresh registry; "
       "proved: the derived-row write-back of _lookup_unit_symbol (exactly one row written, scale = prefix x base)")
_other("C13", [("contracts.units_core", "LookupUnitSymbol")],
       "bounded: interleavings on 2-3 registries created by ten routes, default registry digest after each step; "
       "proved: _lookup_unit_symbol writes only into the table it is given")
_other("C19", [("contracts.unit_ops", "UnitEq"), ("contracts.unit_ops", "SameDimensionsAs")],
       "bounded: tolerance scenarios in SI magnitudes written in every unit pair, decorators over all dimensions; "
       "proved: Unit.__eq__ decides by scale/offset/dimension only and same_dimensions_as by the dimension vector")
_other("C20", [("contracts.units_core", c) for c in ("UnitStr", "UnitRepr", "SplitPrefix", "LookupUnitSymbol")],
       "bounded: grammar-based, token-mutation and byte fuzzing (28k strings quick) + print/parse round trips over "
       "all names and random unit arithmetic; proved: prefix split and table lookup raise only UnitParseError, "
       "__str__/__repr__ special cases")

from contracts import registry as _R   # noqa: E402
for _pid in ("C12", "C13"):
    PLANS[_pid].proofs += [("contracts.registry", n) for n in _R.ALL]


# unary and out= forms of __array_ufunc__
_UNARY_PLAIN = [("contracts.ufunc", n) for n in _U.UNARY if not n.endswith("_offset") and "_offset_" not in n]
_UNARY_OFFSET = [("contracts.ufunc", n) for n in _U.UNARY if n.endswith("_offset") or "_offset_" in n]
_OUTV = [("contracts.ufunc", n) for n in _U.OUT_VARIANTS]
PLANS["C04"].proofs += _UNARY_PLAIN + _OUTV
PLANS["C18"].proofs += _OUTV + [("contracts.ufunc", n) for n in _U.UNARY if "_out_" in n]
PLANS["C08"].proofs += _UNARY_OFFSET
PLANS["C16"].proofs += [("contracts.ufunc", n) for n in _U.UNARY if "_out_" not in n and "_offset" not in n]

from contracts import closeness as _CL   # noqa: E402
PLANS["C19"].proofs += [("contracts.closeness", n) for n in _CL.ALL]

from contracts import parsing as _PA   # noqa: E402
PLANS["C20"].proofs += [("contracts.parsing", n) for n in _PA.ALL]

for _pid in ("C11", "C13"):      # the difference unit belongs to the operands' registry
    PLANS[_pid].proofs += [("contracts.unit_ops", "DifferenceUnits")]

# equivalences (C09): formulas / refusal / frames proved per equivalence and direction through the
# __array_ufunc__ contracts of the configurations they use; round trips and compositions as lemmas
from contracts import equivalence as _EQ, lemmas_c09 as _L9   # noqa: E402
_EQV = [("contracts.ufunc", n) for n in _U.EQUIV_VARIANTS]
PLANS["C09"].proofs += [("contracts.equivalence", n) for n in _EQ.ALL] + _EQV
PLANS["C09"].lemmas += [("contracts.lemmas_c09", n) for n in _L9.ALL]
PLANS["C04"].proofs += _EQV
# C18 takes the frame clauses of the conversions themselves and of the in-place entry point; the
# copying spellings are C09's (their frames are checked there)
PLANS["C18"].proofs += [p for p in _EQV if "_out_" in p[1]] + [
    ("contracts.equivalence", n) for n in _EQ.REFUSALS + _EQ.FORMULAS + _EQ.INPLACE_ENTRY]
PLANS["C16"].proofs += [p for p in _EQV if "_out_" not in p[1]]

# bounded stand-ins next to the proofs (never counted as proved): exhaustive / sampled drivers over
# dtypes, view layouts, unit pairs, registries -- the parts the real-arithmetic encoding cannot see
for _pid in ("C02", "C03", "C05", "C15", "C17", "C18"):
    if PLANS[_pid].bounded is None:
        PLANS[_pid].bounded = ("bounded/c%s.py" % _pid[1:], [], [])

PLANS["C09"].level = "proof"
PLANS["C09"].explanation = ("proved: Equivalence.convert + every _convert branch (refusal for arbitrary dimensions; formula, "
                            "dimension, frames for 7 equivalences in copy / in-place / quantity / integer forms) through the "
                            "__array_ufunc__ contracts of the configurations used; round trips and compositions are lemmas; "
                            "bounded: lorentz / effective_temperature values, entry points, float residuals")
PLANS["C02"].proofs += [("contracts.parsing", "UnitDataEnvelope")]      # C02.P2: Pow / Mul combine their factors

# hypot / remainder / fmod / multiply / divide on an offset temperature scale are refused (C08), before
# anything is written (C18)
_OFFR = [("contracts.ufunc", n) for n in _U.OFFSET_REFUSALS]
PLANS["C08"].proofs += _OFFR
PLANS["C18"].proofs += [p for p in _OFFR if "_out_" in p[1]]
PLANS["C11"].proofs += [("contracts.registry", "RegistryDeepcopy")]     # a deep copy: own table, same rows, empty memo
PLANS["C10"].proofs += [("contracts.registry", "GetBaseEquivalent")]    # result bound to the converted unit's registry

# a python list of quantities (constructor / binary-ufunc operand): coerced to the first member's unit with
# values converted (C16, zero points included: C08), refused for different dimensions, units never dropped (C01)
_COERCE = [("contracts.accessors", n) for n in ("CoerceSeqQQ", "CoerceSeqQQQ", "CoerceSeqNumberFirst")]
PLANS["C01"].proofs += _COERCE
PLANS["C08"].proofs += _COERCE[:1]

# reductions (np.sum / max / min / prod and the ndarray methods reach __array_ufunc__ as <ufunc>.reduce):
# value law over the SI magnitudes and dimension (C04), the reduction NumPy runs on the bare data over the
# axis the caller asked for (C06), operand untouched (C18), result class (C16)
_RED = [("contracts.ufunc", n) for n in _U.REDUCTIONS]
for _pid in ("C04", "C06", "C18", "C16"):
    PLANS[_pid].proofs += _RED

# np.power / ** with a bare real exponent: value law, dimension (C04), refusal on offset scales (C08)
_POW = [("contracts.ufunc", n) for n in _U.POWERS]
for _pid in ("C04", "C08", "C16", "C18"):
    PLANS[_pid].proofs += _POW

# C19: numpy.allclose / isclose compare after conversion to one unit (merge guard), array_equal / array_equiv
# answer without NumPy only for operands whose units differ
PLANS["C19"].proofs += [("contracts.handlers", n) for n in _H.ALL
                        if getattr(_H, n).handler in ("allclose", "isclose", "array_equal", "array_equiv")]
PLANS["C11"].proofs += [("contracts.registry", "ArraySetstate")]        # unpickling restores exactly the pickled table

# in_base / in_cgs / in_mks (copying base-unit route): quantity preserved, zero points included (C03, C10),
# dtype rule (C17), fresh memory and input untouched (C18)
_INBASE = [("contracts.routes", "InBase"), ("contracts.routes", "InBaseQuantity"), ("contracts.routes", "ConvertToBase")]
for _pid in ("C03", "C10", "C17", "C18"):
    PLANS[_pid].proofs += _INBASE

# arctan2: commensurable operands only (C01), the angle of the SI magnitudes as a pure number (C04)
_AT2 = [("contracts.ufunc", n) for n in _U.ARCTAN2]
PLANS["C01"].proofs += _AT2
PLANS["C04"].proofs += _AT2

# item assignment a[i] = q: refused for another dimension with the target untouched (C01, C18), stored as the same
# physical quantity in the target's unit otherwise
_SETITEM = [("contracts.accessors", "SetItem"), ("contracts.accessors", "SetItemArray")]
PLANS["C01"].proofs += _SETITEM
PLANS["C18"].proofs += _SETITEM
# x.copy(): independent data, same numbers / dtype / unit / class / name, original untouched (accessors.ALL puts it
# into C16's plan); also C18 and C11
_COPY = [("contracts.accessors", "ArrayCopy"), ("contracts.accessors", "QuantityCopy")]
PLANS["C18"].proofs += _COPY
PLANS["C11"].proofs += _COPY
PLANS["C11"].proofs += [("contracts.registry", "RegistryFromJson"), ("contracts.registry", "RegistryInit")]

# C17 'combining integer-typed / complex data in different commensurable units': the dtype clauses of the
# commensurable ufunc contracts (result of a rescaling operation is floating point; complex data are never cast to
# a real dtype on the way)
PLANS["C17"].proofs += _sel(lambda n: _NONTEMP(n) and _COMM(n) and (_QQ(n) or n.startswith(_REPR)) and "arctan2" not in n)
for _pid in ("C11", "C18"):
    PLANS[_pid].proofs += [("contracts.registry", "UnitCopyShallow")]      # Unit.copy: same unit, same registry object
