"""Per-property verification plans: which proof jobs, lemmas, ground checks and bounded
drivers decide each property (see DESIGN.md section 5)."""


class Plan:
    def __init__(self, level, proofs=(), lemmas=(), ground=(), bounded=None,
                 trusted_base=(), assumptions=(), explanation="", timeouts=(600, 3000)):
        self.level = level
        self.proofs = list(proofs)
        self.lemmas = list(lemmas)
        self.ground = list(ground)
        self.bounded = bounded
        self.trusted_base = list(trusted_base)
        self.assumptions = list(assumptions)
        self.explanation = explanation
        self.timeouts = timeouts

    def bounded_timeout(self, tier):
        return self.timeouts[1] if tier == "thorough" else self.timeouts[0]


BASE_TRUST = [
    "pyvc symbolic executor (this repository, /verif/pyvc): its encoding of the Python subset",
    "z3 5.1 / cvc5 1.0.3 soundness",
    "Python float arithmetic modelled as exact real arithmetic",
]

PLANS = {}

PLANS["C03"] = Plan(
    level="proof",
    proofs=[("contracts.units_core", "SplitPrefix"),
            ("contracts.units_core", "UnitStr"),
            ("contracts.units_core", "GetConversionFactor")],
    trusted_base=BASE_TRUST,
    explanation="conversion laws proved over all real scales/offsets from the real "
                "_get_conversion_factor body",
)

import ground_checks as G   # noqa: E402

PLANS["C03"].lemmas = [("contracts.lemmas_c03", "identity"), ("contracts.lemmas_c03", "inverse"),
                       ("contracts.lemmas_c03", "composition")]

PLANS["C14"] = Plan(
    level="proof",
    proofs=[("contracts.units_core", "SplitPrefix"), ("contracts.units_core", "SplitPrefixComplete"),
            ("contracts.units_core", "LookupUnitSymbol")],
    bounded=("bounded/c14.py", [], []),
    trusted_base=BASE_TRUST,
    explanation="prefix resolution proved for all strings and all tables (z3 strings); the finite "
                "name space is enumerated completely on the real package (exhaustive bounded run)",
)

PLANS["C02"] = Plan(
    level="proof",
    proofs=[("contracts.units_core", "SplitPrefix"), ("contracts.units_core", "LookupUnitSymbol"),
            ("contracts.units_core", "GetConversionFactor")],
    lemmas=[("contracts.lemmas_c03", "scale_ratio")],
    ground=[G.g_unit_table],
    trusted_base=BASE_TRUST,
    explanation="every table row against independent exact definitions (ground, exhaustive); "
                "prefix lookup and conversion factor proved for all tables",
)

ROUTES = [("contracts.routes", "InUnits"), ("contracts.routes", "To"),
          ("contracts.routes", "ConvertToUnits")]
PLANS["C03"].proofs += ROUTES

PLANS["C18"] = Plan(level="proof", proofs=ROUTES + [("contracts.unit_ops", "AsCoeffUnit")],
                    trusted_base=BASE_TRUST,
                    explanation="normal and exceptional frame conditions of the conversion routes")
PLANS["C17"] = Plan(level="proof", proofs=ROUTES, trusted_base=BASE_TRUST,
                    explanation="dtype obligations decided for the whole dtype lattice (symbolic kind/itemsize)")

PLANS["C05"] = Plan(
    level="proof",
    proofs=[("contracts.unit_ops", c) for c in ("UnitMul", "UnitTrueDiv", "UnitPow", "UnitEq",
                                                "SameDimensionsAs", "AsCoeffUnit")],
    lemmas=[("contracts.lemmas_c05", n) for n in ("commutativity", "associativity", "identity",
                                                  "inverse", "div_inverse", "pow_pow", "pow_distrib",
                                                  "homomorphism", "joule")],
    trusted_base=BASE_TRUST,
    explanation="Unit.__mul__/__truediv__/__pow__/__eq__/as_coeff_unit proved against "
                "scale/dimension/offset/registry postconditions; the algebraic laws are lemmas "
                "over those contracts",
)

PLANS["C15"] = Plan(
    level="proof",
    ground=[G.g_constants],
    trusted_base=BASE_TRUST,
    explanation="defining relations among the constants proved as symbolic identities over the "
                "primitive measured numbers (re-extracted from the source each run); every value, "
                "dimension and name checked exhaustively against independent tables; unit/constant "
                "coincidence symbolically and numerically",
)
